------------------------------ MODULE MC_Single ------------------------------
(***************************************************************************)
(* Model-checking / generation harness for EGSingleton: every call with    *)
(* every class and argument in every reachable state.                      *)
(***************************************************************************)
EXTENDS EGSingleton, Json

CONSTANTS Part,      \* "true" | "semi" | "both"
          DoEmit

VARIABLES T, last
svars == <<T, last>>
SView == T

LiveInsts(kind) == {j \in 1..T.ni : T.kindOf[j] = kind}

TrueCalls == {SCall("tnew", <<c, a>>) : c \in TC, a \in Args} \cup {SCall("tclear", <<c>>) : c \in {0} \cup TC}
SemiCalls ==
       {SCall("snew", <<c, a>>) : c \in SC, a \in Args}
  \cup {SCall("sadd", <<j, a>>) : j \in LiveInsts("s"), a \in Args}
  \cup {SCall("sdrop", <<c, a>>) : c \in SC, a \in Args}
  \cup {SCall("scheck", <<c, a>>) : c \in SC, a \in Args}
  \cup {SCall("sgetall", <<c>>) : c \in SC}
  \cup {SCall("sclear", <<c>>) : c \in SC}

SCalls == (IF Part \in {"true", "both"} THEN TrueCalls ELSE {}) \cup (IF Part \in {"semi", "both"} THEN SemiCalls ELSE {})

SInit == T = InitT /\ last = [c |-> SCall("init", <<>>), err |-> FALSE, inst |-> 0, out |-> <<>>]
SNext == \E c \in SCalls : \E o \in SPost(T, c) :
            /\ o.st.ni <= NI
            /\ T' = o.st
            /\ last' = [c |-> c, err |-> o.err, inst |-> o.inst, out |-> o.out]
SSpec == SInit /\ [][SNext]_svars

SEmit == DoEmit => PrintT(ToJson([c |-> last'.c, s |-> T, t |-> T']))
SBound == T.ni < NI

InvOnePerClass == OnePerClass(T)
InvInitOnce    == InitOnce(T)
InvInstanceOfCalledClass == InstanceOfCalledClass(T)

\* C18: all constructions between two clears of a class return the same object
SameUntilCleared ==
  [][(last'.c.op = "tnew" /\ T.tinst[last'.c.a[1]] # 0) => last'.inst = T.tinst[last'.c.a[1]]]_svars
\* C18: clearing one class leaves every other class's instance in place
ClearIsTargeted ==
  [][(last'.c.op = "tclear" /\ last'.c.a[1] # 0) =>
       \A d \in TC \ {last'.c.a[1]} : T'.tinst[d] = T.tinst[d]]_svars
\* C17: operations on one class never change what another class returns
ClassIsolation ==
  [][last'.c.op \in {"snew", "sdrop", "sclear", "scheck", "sgetall"} =>
       \A d \in SC \ {last'.c.a[1]} : T'.smap[d] = T.smap[d]]_svars
\* C17: check / get_all report without creating anything
ChecksCreateNothing == [][last'.c.op \in {"scheck", "sgetall"} => T' = T]_svars
\* C17: a construction with a key that is not live creates a NEW instance of the called class
FreshKeyFreshInstance ==
  [][(last'.c.op = "snew" /\ T.smap[last'.c.a[1]][Key(last'.c.a[1], last'.c.a[2])] = 0) =>
       (last'.inst = T.ni + 1 /\ T'.cls[last'.inst] = last'.c.a[1])]_svars
=============================================================================
