---------------------------- MODULE EGStructureImpl ----------------------------
(***************************************************************************)
(* MECHANISM-level model of the structural core: the mutually recursive    *)
(* call-backs of vertex.py / link.py / twoendedlink.py / universe.py, one  *)
(* action per step of each method, with an explicit call stack.            *)
(*                                                                         *)
(* EGStructure says WHAT every public call must achieve (Post_op).  This   *)
(* module says HOW the code achieves it and lets TLC check, for every      *)
(* reachable state and every public call with every argument aliasing:     *)
(*   Refines      when a public call returns, the state is one of the      *)
(*                outcomes Post(pre, call) of the reference semantics;     *)
(*   StackBounded the mutual recursion always terminates (depth <= 6);     *)
(*   Invalidates  every vertex that is an end (before or after) of a link  *)
(*                whose end list changed, or whose own links changed, had  *)
(*                its neighbour memo dropped during the call (the rule     *)
(*                EGCache shows to be sufficient for transparency).        *)
(* Variant selects the mechanism: "fixed" is the repaired code; the others *)
(* are the code as found (negative controls, each must be refuted):        *)
(*   "orig-vrem"  remove_from_link asks the link to forget ONE occurrence  *)
(*   "orig-setv"  v1/v2 assignment = unlink old, rebuild list, add new     *)
(*   "orig-laws"  the two laws setters as found                            *)
(*   "orig-inval" only the vertex whose call-back runs is invalidated      *)
(***************************************************************************)
EXTENDS EGStructure

CONSTANTS Variant, ImplKinds, ImplOps,
          TraceMode     \* BOOLEAN: keep the sequence of internal calls entered (trace validation of the mechanism)

VARIABLES G,        \* the graph, an EGStructure state record
          stk,      \* call stack: sequence of frames [f, a, pc, j]
          call,     \* the public call in progress (or NoCall)
          pre,      \* G when the public call started
          raised,   \* the public call raised
          inval,    \* vertices whose memo was dropped during the public call
          hist      \* TraceMode: the internal methods entered during the public call, in order, as <<name, args>>

ivars == <<G, stk, call, pre, raised, inval, hist>>
IView == <<G, stk, call, raised>>
NoCall == Call("idle", "", <<>>, <<>>)

Frame(f, a) == [f |-> f, a |-> a, pc |-> 1, j |-> 1]
Top == stk[Len(stk)]
Below == SubSeq(stk, 1, Len(stk) - 1)
SetTop(fr) == stk' = Append(Below, fr)
Pop == stk' = Below
PushOver(fr, callee) == stk' = Append(Append(Below, fr), callee)     \* update caller frame, then enter callee

Verts == 1..NV
Inv(T) == inval' = inval \cup (T \cap Obj)
EndsOf(e) == Rng(G.ends[e]) \ {None}

IInit == /\ G = BaseState(NV, NU, TRUE) /\ stk = <<>> /\ call = NoCall /\ pre = BaseState(NV, NU, TRUE)
         /\ raised = FALSE /\ inval = {} /\ hist = <<>>

\* ---- the public client ----------------------------------------------------
VN == Verts \cup {None}
TwoL == {e \in 1..G.nl : G.kind[e] \in TwoKinds}
PublicCalls ==
       (IF "new" \in ImplOps /\ G.nl < NL THEN {Call("new", k, <<x, y>>, <<>>) : k \in ImplKinds, x \in VN, y \in VN} ELSE {})
  \cup (IF "setv" \in ImplOps THEN {Call("setv", "", <<e, i, n>>, <<>>) : e \in TwoL, i \in {1, 2}, n \in VN} ELSE {})
  \cup (IF "vadd" \in ImplOps THEN {Call("vadd", "", <<v, e>>, <<>>) : v \in Verts, e \in 1..G.nl} ELSE {})
  \cup (IF "vrem" \in ImplOps THEN {Call("vrem", "", <<v, e>>, <<>>) : v \in Verts, e \in 1..G.nl} ELSE {})
  \cup (IF "ladd" \in ImplOps THEN {Call("ladd", "", <<e, v>>, <<>>) : e \in 1..G.nl, v \in VN} ELSE {})
  \cup (IF "lunl" \in ImplOps THEN {Call("lunl", "", <<e, v>>, <<>>) : e \in 1..G.nl, v \in VN} ELSE {})
  \cup (IF "uadd" \in ImplOps THEN {Call(op, "", <<k, o>>, <<>>) : op \in {"uadd", "urem"}, k \in 1..G.bu, o \in BornObj(G)} ELSE {})
  \cup (IF "uadd" \in ImplOps THEN {Call(op, "", <<o, k>>, <<>>) : op \in {"oadd", "orem"}, o \in BornObj(G), k \in 1..G.bu} ELSE {})
  \cup (IF "setlaws" \in ImplOps THEN {Call("setlaws", "", <<k, L>>, <<>>) : k \in 1..G.bu, L \in {0} \cup {M \in Laws : G.bl[M]}} ELSE {})
  \cup (IF "setlaws" \in ImplOps THEN {Call("setapp", "", <<L, uo>>, <<>>) : L \in {M \in Laws : G.bl[M]},
                                                                            uo \in {0} \cup {UObj(k) : k \in 1..G.bu}} ELSE {})

Begin ==
  /\ stk = <<>> /\ call = NoCall
  /\ \E c \in PublicCalls :
       /\ call' = c /\ pre' = G /\ raised' = FALSE /\ inval' = {}
       /\ stk' = <<Frame(c.op, c.a)>>
       /\ IF c.op = "new"
            THEN G' = [G EXCEPT !.nl = @ + 1, !.kind[G.nl + 1] = c.k]     \* Link.__init__: an empty link, then add_vertex twice
            ELSE G' = G

\* the public call has returned: compare with the reference semantics, go idle
Return ==
  /\ stk = <<>> /\ call # NoCall
  /\ call' = NoCall /\ UNCHANGED <<G, stk, pre, raised, inval>>

\* ---- Vertex.add_to_link(v, e) ----------------------------------------------
VAdd ==
  /\ stk # <<>> /\ Top.f = "vadd"
  /\ LET v == Top.a[1] e == Top.a[2] IN
     CASE Top.pc = 1 ->
            IF Has(G.vl[v], e)
              THEN /\ SetTop([Top EXCEPT !.pc = 3]) /\ UNCHANGED <<G, inval>>
              ELSE /\ G' = [G EXCEPT !.vl[v] = Append(@, e)]
                   /\ SetTop([Top EXCEPT !.pc = 2]) /\ UNCHANGED inval
       [] Top.pc = 2 ->
            /\ UNCHANGED <<G, inval>>
            /\ IF ~Has(G.ends[e], v)
                 THEN PushOver([Top EXCEPT !.pc = 3], Frame("ladd", <<e, v>>))
                 ELSE SetTop([Top EXCEPT !.pc = 3])
       [] Top.pc = 3 -> /\ Inv({v}) /\ Pop /\ UNCHANGED G
  /\ UNCHANGED <<call, pre, raised>>

\* ---- Link.add_vertex(e, v)  (also the two steps of Link.__init__) ----------
LAdd ==
  /\ stk # <<>> /\ Top.f = "ladd"
  /\ LET e == Top.a[1] v == Top.a[2] IN
     CASE Top.pc = 1 ->
            /\ G' = [G EXCEPT !.ends[e] = Append(@, v)]
            /\ SetTop([Top EXCEPT !.pc = 2]) /\ UNCHANGED inval
       [] Top.pc = 2 ->
            /\ UNCHANGED <<G, inval>>
            /\ IF v # None /\ ~Has(G.vl[v], e)
                 THEN PushOver([Top EXCEPT !.pc = 3], Frame("vadd", <<v, e>>))
                 ELSE SetTop([Top EXCEPT !.pc = 3])
       [] Top.pc = 3 ->
            /\ (IF Variant = "orig-inval" THEN UNCHANGED inval ELSE Inv(EndsOf(e)))
            /\ Pop /\ UNCHANGED G
  /\ UNCHANGED <<call, pre, raised>>

\* ---- Vertex.remove_from_link(v, e) ------------------------------------------
VRem ==
  /\ stk # <<>> /\ Top.f = "vrem"
  /\ LET v == Top.a[1] e == Top.a[2] IN
     CASE Top.pc = 1 ->
            IF Has(G.vl[v], e)
              THEN /\ G' = [G EXCEPT !.vl[v] = Without(@, e)]
                   /\ SetTop([Top EXCEPT !.pc = 2]) /\ UNCHANGED inval
              ELSE /\ SetTop([Top EXCEPT !.pc = 3]) /\ UNCHANGED <<G, inval>>
       [] Top.pc = 2 ->
            /\ UNCHANGED <<G, inval>>
            /\ IF Variant = "orig-vrem"
                 \* as found: link.unlink_from(self), once, unconditionally
                 THEN PushOver([Top EXCEPT !.pc = 3], Frame("lunl", <<e, v>>))
                 \* repaired: while self in link.vertices: link.unlink_from(self)
                 ELSE IF Has(G.ends[e], v)
                        THEN PushOver(Top, Frame("lunl", <<e, v>>))
                        ELSE SetTop([Top EXCEPT !.pc = 3])
       [] Top.pc = 3 -> /\ Inv({v}) /\ Pop /\ UNCHANGED G
  /\ UNCHANGED <<call, pre, raised>>

\* ---- Link.unlink_from(e, v) -------------------------------------------------
LUnl ==
  /\ stk # <<>> /\ Top.f = "lunl"
  /\ LET e == Top.a[1] v == Top.a[2] IN
     CASE Top.pc = 1 ->
            IF Has(G.ends[e], v)
              THEN /\ G' = [G EXCEPT !.ends[e] = RemFirst(@, v)]
                   /\ SetTop([Top EXCEPT !.pc = 2]) /\ UNCHANGED inval
              ELSE /\ Pop /\ UNCHANGED <<G, inval>>
       [] Top.pc = 2 ->
            /\ UNCHANGED <<G, inval>>
            /\ IF v # None
                 THEN PushOver([Top EXCEPT !.pc = 3], Frame("vrem", <<v, e>>))
                 ELSE SetTop([Top EXCEPT !.pc = 3])
       [] Top.pc = 3 ->
            /\ (IF Variant = "orig-inval" THEN UNCHANGED inval ELSE Inv(EndsOf(e)))
            /\ Pop /\ UNCHANGED G
  /\ UNCHANGED <<call, pre, raised>>

\* ---- Link.__init__ for a two-ended class: add_vertex(v1); add_vertex(v2) ----
New ==
  /\ stk # <<>> /\ Top.f = "new"
  /\ LET e == G.nl IN
     CASE Top.pc = 1 -> PushOver([Top EXCEPT !.pc = 2], Frame("ladd", <<e, Top.a[1]>>))
       [] Top.pc = 2 -> PushOver([Top EXCEPT !.pc = 3], Frame("ladd", <<e, Top.a[2]>>))
       [] Top.pc = 3 -> Pop
  /\ UNCHANGED <<G, call, pre, raised, inval>>

\* ---- e.v1 = n / e.v2 = n ----------------------------------------------------
\* repaired: _replace_ends.  frame fields: a = <<e, i, n>>; j walks the old / new end list
SetVFixed ==
  LET e == Top.a[1] i == Top.a[2] n == Top.a[3] IN
  CASE Top.pc = 1 ->
         IF Len(G.ends[e]) < 2
           THEN /\ raised' = TRUE /\ Pop /\ UNCHANGED <<G, inval>>
           ELSE /\ G' = [G EXCEPT !.ends[e] = IF i = 1 THEN <<n, @[2]>> ELSE <<@[1], n>>]
                /\ SetTop([Top EXCEPT !.pc = 2, !.j = 1]) /\ UNCHANGED <<raised, inval>>
    \* for vert in previous: detach those that are no longer an end
    [] Top.pc = 2 ->
         LET prev == pre.ends[e] IN
         /\ UNCHANGED <<G, raised, inval>>
         /\ IF Top.j > Len(prev) THEN SetTop([Top EXCEPT !.pc = 3, !.j = 1])
            ELSE LET w == prev[Top.j] IN
                 IF w # None /\ ~Has(G.ends[e], w)
                   THEN PushOver([Top EXCEPT !.j = @ + 1], Frame("vrem", <<w, e>>))
                   ELSE SetTop([Top EXCEPT !.j = @ + 1])
    \* for vert in self._vertices: attach those that do not list the link yet
    [] Top.pc = 3 ->
         /\ UNCHANGED <<G, raised, inval>>
         /\ IF Top.j > Len(G.ends[e]) THEN SetTop([Top EXCEPT !.pc = 4])
            ELSE LET w == G.ends[e][Top.j] IN
                 IF w # None /\ ~Has(G.vl[w], e)
                   THEN PushOver([Top EXCEPT !.j = @ + 1], Frame("vadd", <<w, e>>))
                   ELSE SetTop([Top EXCEPT !.j = @ + 1])
    [] Top.pc = 4 ->
         /\ Inv((Rng(pre.ends[e]) \cup Rng(G.ends[e])) \ {None}) /\ Pop /\ UNCHANGED <<G, raised>>

\* as found:  other = the other end; self.unlink_from(old); self._vertices = [] (or [v1]);
\*            self.add_vertex(new); (v1 setter) self._vertices.append(v2)
SetVOrig ==
  LET e == Top.a[1] i == Top.a[2] n == Top.a[3] IN
  CASE Top.pc = 1 ->
         IF Len(G.ends[e]) < 2
           THEN /\ raised' = TRUE /\ Pop /\ UNCHANGED <<G, inval>>
           ELSE /\ PushOver([Top EXCEPT !.pc = 2], Frame("lunl", <<e, G.ends[e][i]>>))
                /\ UNCHANGED <<G, raised, inval>>
    [] Top.pc = 2 ->
         /\ G' = [G EXCEPT !.ends[e] = IF i = 1 THEN <<>> ELSE <<pre.ends[e][1]>>]
         /\ SetTop([Top EXCEPT !.pc = 3]) /\ UNCHANGED <<raised, inval>>
    [] Top.pc = 3 ->
         /\ PushOver([Top EXCEPT !.pc = 4], Frame("ladd", <<e, n>>)) /\ UNCHANGED <<G, raised, inval>>
    [] Top.pc = 4 ->
         /\ G' = IF i = 1 THEN [G EXCEPT !.ends[e] = Append(@, pre.ends[e][2])] ELSE G
         /\ Pop /\ UNCHANGED <<raised, inval>>

SetV == /\ stk # <<>> /\ Top.f = "setv"
        /\ (IF Variant = "orig-setv" THEN SetVOrig ELSE SetVFixed)
        /\ UNCHANGED <<call, pre>>

\* ---- universe membership ----------------------------------------------------
UAdd ==    \* Universe.add_vertex(k, o)
  /\ stk # <<>> /\ Top.f = "uadd"
  /\ LET k == Top.a[1] o == Top.a[2] IN
     CASE Top.pc = 1 ->
            IF Has(G.members[k], o) THEN Pop /\ UNCHANGED G
            ELSE /\ G' = [G EXCEPT !.members[k] = Append(@, o)] /\ SetTop([Top EXCEPT !.pc = 2])
       [] Top.pc = 2 ->
            /\ UNCHANGED G
            /\ IF ~Has(G.unis[o], UObj(k)) THEN PushOver([Top EXCEPT !.pc = 3], Frame("oadd", <<o, k>>))
               ELSE SetTop([Top EXCEPT !.pc = 3])
       [] Top.pc = 3 -> Pop /\ UNCHANGED G
  /\ UNCHANGED <<call, pre, raised, inval>>

OAdd ==    \* Vertex.add_to_universe(o, k): BaseObject part, then the universe side if needed
  /\ stk # <<>> /\ Top.f = "oadd"
  /\ LET o == Top.a[1] k == Top.a[2] IN
     CASE Top.pc = 1 ->
            /\ G' = [G EXCEPT !.unis[o] = AppendNew(@, UObj(k))] /\ SetTop([Top EXCEPT !.pc = 2])
       [] Top.pc = 2 ->
            /\ UNCHANGED G
            /\ IF ~Has(G.members[k], o) THEN PushOver([Top EXCEPT !.pc = 3], Frame("uadd", <<k, o>>))
               ELSE SetTop([Top EXCEPT !.pc = 3])
       [] Top.pc = 3 -> Pop /\ UNCHANGED G
  /\ UNCHANGED <<call, pre, raised, inval>>

URem ==    \* Universe.remove_vertex(k, o): list.remove raises ValueError for a non-member
  /\ stk # <<>> /\ Top.f = "urem"
  /\ LET k == Top.a[1] o == Top.a[2] IN
     CASE Top.pc = 1 ->
            IF ~Has(G.members[k], o) THEN raised' = TRUE /\ stk' = <<>> /\ UNCHANGED G
            ELSE /\ G' = [G EXCEPT !.members[k] = RemFirst(@, o)] /\ SetTop([Top EXCEPT !.pc = 2]) /\ UNCHANGED raised
       [] Top.pc = 2 ->
            /\ UNCHANGED <<G, raised>>
            /\ IF Has(G.unis[o], UObj(k)) THEN PushOver([Top EXCEPT !.pc = 3], Frame("orem", <<o, k>>))
               ELSE SetTop([Top EXCEPT !.pc = 3])
       [] Top.pc = 3 -> Pop /\ UNCHANGED <<G, raised>>
  /\ UNCHANGED <<call, pre, inval>>

ORem ==    \* Vertex.remove_from_universe(o, k)
  /\ stk # <<>> /\ Top.f = "orem"
  /\ LET o == Top.a[1] k == Top.a[2] IN
     CASE Top.pc = 1 ->
            IF ~Has(G.unis[o], UObj(k)) THEN raised' = TRUE /\ stk' = <<>> /\ UNCHANGED G
            ELSE /\ G' = [G EXCEPT !.unis[o] = RemFirst(@, UObj(k))] /\ SetTop([Top EXCEPT !.pc = 2]) /\ UNCHANGED raised
       [] Top.pc = 2 ->
            /\ UNCHANGED <<G, raised>>
            /\ IF Has(G.members[k], o) THEN PushOver([Top EXCEPT !.pc = 3], Frame("urem", <<k, o>>))
               ELSE SetTop([Top EXCEPT !.pc = 3])
       [] Top.pc = 3 -> Pop /\ UNCHANGED <<G, raised>>
  /\ UNCHANGED <<call, pre, inval>>

\* ---- Universe.laws = L   /   UniverseLaws.applies_to = u ---------------------
SetLawsFixed ==
  LET k == Top.a[1] L == Top.a[2] old == Top.j - 1 IN      \* the previous law set is remembered in j (offset by 1)
  CASE Top.pc = 1 ->
         IF G.laws[k] = L THEN Pop /\ UNCHANGED G
         ELSE /\ G' = [G EXCEPT !.laws[k] = L] /\ SetTop([Top EXCEPT !.pc = 2, !.j = G.laws[k] + 1])
    [] Top.pc = 2 ->
         /\ UNCHANGED G
         /\ IF old # 0 /\ G.app[old] = UObj(k) THEN PushOver([Top EXCEPT !.pc = 3], Frame("setapp", <<old, 0>>))
            ELSE SetTop([Top EXCEPT !.pc = 3])
    [] Top.pc = 3 ->
         /\ UNCHANGED G
         /\ IF L # 0 /\ G.app[L] # UObj(k) THEN PushOver([Top EXCEPT !.pc = 4], Frame("setapp", <<L, UObj(k)>>))
            ELSE SetTop([Top EXCEPT !.pc = 4])
    [] Top.pc = 4 -> Pop /\ UNCHANGED G

SetAppFixed ==
  LET L == Top.a[1] uo == Top.a[2] old == Top.j - 1 IN
  CASE Top.pc = 1 ->
         IF G.app[L] = uo THEN Pop /\ UNCHANGED G
         ELSE /\ G' = [G EXCEPT !.app[L] = uo] /\ SetTop([Top EXCEPT !.pc = 2, !.j = G.app[L] + 1])
    [] Top.pc = 2 ->
         /\ UNCHANGED G
         /\ IF old # 0 /\ G.laws[UIx(old)] = L THEN PushOver([Top EXCEPT !.pc = 3], Frame("setlaws", <<UIx(old), 0>>))
            ELSE SetTop([Top EXCEPT !.pc = 3])
    [] Top.pc = 3 ->
         /\ UNCHANGED G
         /\ IF uo # 0 /\ G.laws[UIx(uo)] # L THEN PushOver([Top EXCEPT !.pc = 4], Frame("setlaws", <<UIx(uo), L>>))
            ELSE SetTop([Top EXCEPT !.pc = 4])
    [] Top.pc = 4 -> Pop /\ UNCHANGED G

\* as found
SetLawsOrig ==
  LET k == Top.a[1] L == Top.a[2] IN
  CASE Top.pc = 1 ->
         IF G.laws[k] = L THEN Pop /\ UNCHANGED <<G, raised>>
         ELSE IF G.laws[k] # 0 /\ L = 0
           THEN /\ G' = [G EXCEPT !.app[G.laws[k]] = 0, !.laws[k] = 0] /\ Pop /\ UNCHANGED raised
           ELSE IF G.laws[k] = 0
             THEN raised' = TRUE /\ stk' = <<>> /\ UNCHANGED G        \* None.applies_to = None : AttributeError
             ELSE PushOver([Top EXCEPT !.pc = 2], Frame("setapp", <<G.laws[k], 0>>)) /\ UNCHANGED <<G, raised>>
    [] Top.pc = 2 ->
         /\ G' = [G EXCEPT !.laws[k] = L] /\ UNCHANGED raised
         /\ PushOver([Top EXCEPT !.pc = 3], Frame("setapp", <<L, UObj(k)>>))
    [] Top.pc = 3 -> Pop /\ UNCHANGED <<G, raised>>

SetAppOrig ==
  LET L == Top.a[1] uo == Top.a[2] IN
  CASE Top.pc = 1 ->
         IF G.app[L] = uo THEN Pop /\ UNCHANGED <<G, raised>>
         ELSE /\ G' = [G EXCEPT !.app[L] = uo] /\ UNCHANGED raised
              /\ IF uo # 0 THEN PushOver([Top EXCEPT !.pc = 2], Frame("setlaws", <<UIx(uo), L>>))
                 ELSE SetTop([Top EXCEPT !.pc = 2])
    [] Top.pc = 2 -> Pop /\ UNCHANGED <<G, raised>>

SetLaws == /\ stk # <<>> /\ Top.f = "setlaws"
           /\ IF Variant = "orig-laws" THEN SetLawsOrig ELSE (SetLawsFixed /\ UNCHANGED raised)
           /\ UNCHANGED <<call, pre, inval>>
SetApp  == /\ stk # <<>> /\ Top.f = "setapp"
           /\ IF Variant = "orig-laws" THEN SetAppOrig ELSE (SetAppFixed /\ UNCHANGED raised)
           /\ UNCHANGED <<call, pre, inval>>

IStep == Begin \/ Return \/ VAdd \/ LAdd \/ VRem \/ LUnl \/ New \/ SetV \/ UAdd \/ OAdd \/ URem \/ ORem \/ SetLaws \/ SetApp
Entered == IF Len(stk') > Len(stk) THEN <<<<stk'[Len(stk')].f, stk'[Len(stk')].a>>>> ELSE <<>>
INext == IStep /\ hist' = IF ~TraceMode THEN hist
                         ELSE IF stk = <<>> /\ call = NoCall THEN Entered      \* a new public call starts a new history
                         ELSE hist \o Entered
ISpec == IInit /\ [][INext]_ivars

IBound == \A e \in Links : Len(G.ends[e]) <= 3

\* ---- properties -------------------------------------------------------------
\* the mechanism achieves what the reference semantics demands
Refines ==
  (stk = <<>> /\ call # NoCall) =>
     \E o \in Post(pre, call) : o.st = G /\ o.err = raised
\* the mutual recursion terminates quickly
StackBounded == Len(stk) <= 6
\* what EGCache needs from the mutators
Invalidates ==
  (stk = <<>> /\ call # NoCall /\ call.op \in LinkOps) =>
     LET touched == {e \in Links : pre.ends[e] # G.ends[e]}
         must == {v \in Verts : \/ pre.vl[v] # G.vl[v]
                               \/ \E e \in touched : v \in Rng(pre.ends[e]) \cup Rng(G.ends[e])}
     IN must \subseteq inval
\* a call that raised changed nothing
RaiseAtomic == (stk = <<>> /\ call # NoCall /\ raised) => G = pre
=============================================================================
