------------------------------ MODULE JudgeBuild ------------------------------
(***************************************************************************)
(* E3 for the builders (C11 follow mode, C20).                             *)
(*  Prop = "C11": records {id, pre, c, res, post}; (post, res) must be an  *)
(*    outcome of BPost(pre, c) - the new universe's member order, every    *)
(*    new link's kind, ends and creation order, all prior structure kept,  *)
(*    ValueError and nothing touched on a bad shape.                       *)
(*  Prop = "C20": records {id, count, k, ensure, err, adj, post}: one run  *)
(*    of randgraph; post is the projection of the returned universe with   *)
(*    vertices numbered by their attribute i (+1), adj the samples the     *)
(*    real generator produced (a = EncodeAdj).  The run must not raise,    *)
(*    the result must satisfy RandGraphPost and equal load_adj_dict of the *)
(*    logged samples.                                                      *)
(***************************************************************************)
EXTENDS EGBuilders, Json, IOUtils, TLCExt

CONSTANT Prop

Recs == JsonDeserialize(IOEnv.EG_RECORDS)
VARIABLE i
Init == i \in 1..Len(Recs)
Next == UNCHANGED i
Spec == Init /\ [][Next]_i

Tag(b, name) == IF b THEN {} ELSE {name}
Raised(r) == r.res.err # ""
Matches(o, r) ==
  /\ o.st = r.post
  /\ o.err = Raised(r)
  /\ (o.exc = "" \/ o.exc = r.res.err)
  /\ (~o.err => o.out = r.res.out)

FailC11(r) ==
  IF ~StructInv(r.pre) THEN {}
  ELSE Tag(\E o \in BPost(r.pre, r.c) : Matches(o, r), "Follow")

FailC20(r) ==
  IF r.err # "" THEN {"Raised"}
  ELSE LET S0 == BaseState(r.count, 0, FALSE)
           T  == TheState(Post_LoadAdjDict(S0, DecodeAdj(r.adj), r.k))
           \* the samples are only known when the code drew them through random.sample (observed from outside);
           \* an implementation drawing them another way is judged on the post-condition alone
           seen == Len(DecodeAdj(r.adj)) = r.count
       IN    Tag(RandGraphPost(r.post, 1, r.count, r.k, r.ensure, 1), "RandGraphPost")
        \cup (IF seen THEN Tag(r.post = T, "EqualsLoadAdjDictOfSamples") ELSE {})

Fails(r) == IF Prop = "C11" THEN FailC11(r) ELSE FailC20(r)

Expected(r) == IF Prop = "C11" /\ StructInv(r.pre)
                 THEN LET o == CHOOSE o \in BPost(r.pre, r.c) : TRUE IN [st |-> o.st, err |-> o.err, out |-> o.out]
                 ELSE [st |-> <<>>]

Judged == LET r == Recs[i] f == Fails(r)
          IN f = {} \/ PrintT(ToJson([id |-> r.id, fail |-> SetToSeq(f), exp |-> Expected(r)]))
=============================================================================
