------------------------------- MODULE EGCache -------------------------------
(***************************************************************************)
(* The optional neighbour memo (Vertex.NEIGHBOR_CACHING).                  *)
(*                                                                         *)
(* State: the structural state S of MC_Struct, the program-wide flag       *)
(* `caching', and per vertex a memo from query keys to answers.  A key is  *)
(* an index into KeySpec (direction, unknown handling); memo[v][k] is      *)
(* Absent or the list neighbors() returned when the entry was filled.      *)
(*                                                                         *)
(* Actions: every structural call (Mutate), neighbors() (Query: a hit      *)
(* returns the memo entry, a miss computes and - if the flag is on -       *)
(* stores), and switching the flag (Toggle: entries survive).              *)
(*                                                                         *)
(* C05 (transparency) is the action property Transparent: every Query      *)
(* answers Nb evaluated in the current graph.  It holds iff the memo is     *)
(* coherent, and that depends on the INVALIDATION RULE, a constant:         *)
(*   "ends"  : a mutator drops the memo of every vertex that is an end,     *)
(*             before or after, of a link whose end list it changed, and    *)
(*             of every vertex whose own links changed - flag or no flag    *)
(*             (the reference rule; TLC shows it is sufficient and that it  *)
(*             covers the semantically necessary drops, MechCoversSem)      *)
(*   "today" : the rule of the unrepaired code: only a vertex whose own     *)
(*             links changed, and only while the flag is on (negative       *)
(*             control: TLC must find a stale answer)                       *)
(***************************************************************************)
EXTENDS MC_Struct, EGQueries

CONSTANTS Rule,        \* "ends" | "today"
          KeySpec,     \* sequence of [d |-> direction, u |-> unknown handling]
          HistLen      \* > 0: behaviours of this length are printed (trace generation with -simulate)

VARIABLES caching, memo,
          hist         \* the calls made so far (hidden by the VIEW; only kept when HistLen > 0)

\* key menus for the configurations (cfg: KeySpec <- Keys3 ...)
Keys3 == <<[d |-> 0, u |-> 1], [d |-> 1, u |-> 1], [d |-> 2, u |-> 1]>>
Keys4 == Keys3 \o <<[d |-> 0, u |-> 2]>>
Keys5 == Keys4 \o <<[d |-> 2, u |-> 0]>>

cvars == <<S, last, caching, memo, hist>>
CView == <<S, caching, memo>>

Keys   == DOMAIN KeySpec
Absent == <<-1>>
NbK(T, v, k) == Nb(T, v, KeySpec[k].d, KeySpec[k].u, NoFilter)

CVert == 1..NV
QOKv(T, v) == v <= T.bv /\ QDom(T, v)

CInit == /\ Init
         /\ caching \in BOOLEAN
         /\ memo = [v \in CVert |-> [k \in Keys |-> Absent]]
         /\ hist = <<>>

Touched(T, T2) == {e \in Links : T.ends[e] # T2.ends[e]}
MechDrop(T, T2) ==
  {v \in CVert : \/ T.vl[v] # T2.vl[v]
                 \/ \E e \in Touched(T, T2) : v \in Rng(T.ends[e]) \cup Rng(T2.ends[e])}
TodayDrop(T, T2) == IF caching THEN {v \in CVert : T.vl[v] # T2.vl[v]} ELSE {}
DropSet(T, T2) == IF Rule = "ends" THEN MechDrop(T, T2) ELSE TodayDrop(T, T2)

\* vertices whose answers really change (the weakest correct invalidation)
SemDrop(T, T2) ==
  {v \in CVert : QOKv(T, v) /\ QOKv(T2, v) /\ \E k \in Keys : NbK(T, v, k) # NbK(T2, v, k)}

Mutate ==
  /\ Next                                    \* any structural call of MC_Struct
  /\ caching' = caching
  /\ memo' = [v \in CVert |-> IF v \in DropSet(S, S') THEN [k \in Keys |-> Absent] ELSE memo[v]]

Query(v, k) ==
  /\ QOKv(S, v)
  /\ UNCHANGED <<S, caching>>
  /\ LET hit == caching /\ memo[v][k] # Absent
         ans == IF hit THEN QOk(memo[v][k]) ELSE NbK(S, v, k)
     IN /\ last' = [c |-> Call("nb", "", <<v, KeySpec[k].d, KeySpec[k].u>>, <<>>), err |-> ans.err, out |-> ans.out]
        /\ memo' = IF caching /\ ~hit /\ ~ans.err THEN [memo EXCEPT ![v][k] = ans.out] ELSE memo

Toggle ==
  /\ caching' = ~caching
  /\ UNCHANGED <<S, memo>>
  /\ last' = [c |-> Call("toggle", "", <<IF caching THEN 0 ELSE 1>>, <<>>), err |-> FALSE, out |-> <<>>]

CStep == Mutate \/ Toggle \/ \E v \in CVert, k \in Keys : Query(v, k)
\* beyond the listed properties: the counters of Vertex.total_cache_stats().  A query made while the flag is on
\* is a HIT (entry present) or a MISS; a miss that does not raise INSERTS an entry.
IsQuery == last'.c.op = "nb"
WasHit  == IsQuery /\ caching /\ \E k \in Keys : /\ KeySpec[k].d = last'.c.a[2] /\ KeySpec[k].u = last'.c.a[3]
                                                /\ memo[last'.c.a[1]][k] # Absent
WasMiss == IsQuery /\ caching /\ ~WasHit
DidInsert == IsQuery /\ memo' # memo
CNext == CStep /\ hist' = IF HistLen > 0
                            THEN Append(hist, [cf |-> caching, c |-> last'.c, t |-> S',
                                               hit |-> WasHit, miss |-> WasMiss, ins |-> DidInsert])
                            ELSE hist

CSpec == CInit /\ [][CNext]_cvars

-----------------------------------------------------------------------------
\* every entry present equals what neighbors() would compute now
CacheCoherent ==
  \A v \in CVert, k \in Keys :
     (memo[v][k] # Absent /\ QOKv(S, v)) => NbK(S, v, k) = QOk(memo[v][k])

\* C05: a query, cached or not, answers what the uncached computation answers
Transparent ==
  [][last'.c.op = "nb" =>
       LET v == last'.c.a[1] IN
         \E k \in Keys : /\ KeySpec[k].d = last'.c.a[2] /\ KeySpec[k].u = last'.c.a[3]
                         /\ [err |-> last'.err, out |-> last'.out] =
                            [err |-> NbK(S, v, k).err, out |-> NbK(S, v, k).out]]_cvars

\* the mechanism rule drops at least what semantics requires
MechCoversSem == [][SemDrop(S, S') \subseteq MechDrop(S, S')]_cvars

\* trace generation: print every behaviour prefix that reaches HistLen calls
DumpHist == (HistLen > 0 /\ Len(hist) = HistLen) => PrintT(ToJson(hist))
=============================================================================
