------------------------------ MODULE JudgeLazy ------------------------------
(* Trace validation for EGLazy: histories recorded from the real generators   *)
(* (structural calls and next() calls interleaved by the driver) are followed *)
(* with the generator's local state carried by the specification - it is      *)
(* hidden in the implementation (a frame of a Python generator).              *)
(*   trace = [id, s0 (graph when the generator was created), gen = [kind, u,  *)
(*            s, d, unk, hide], ev = sequence of events]                      *)
(*   event = [op |-> "mut", t |-> graph afterwards]                           *)
(*         | [op |-> "next", out |-> vertex or 0, err |-> exception class]    *)
(* The graph after a structural call is ADOPTED from the log (whether it is   *)
(* an allowed outcome of the call is what C01-C03 judge); every next() must   *)
(* give exactly GenNext of the current graph and the carried local state.     *)
EXTENDS EGLazy, IOUtils

Traces == JsonDeserialize(IOEnv.EG_RECORDS)
VARIABLE ti
JInit == /\ ti \in 1..Len(Traces)
         /\ S = 0 /\ last = 0 /\ g = 0 /\ dirty = FALSE /\ res = 0 /\ hist = <<>>
JNext == UNCHANGED <<ti, lvars>>

GenOf(r) == [NoGen EXCEPT !.st = "new", !.kind = r.kind, !.u = r.u, !.s = r.s, !.d = r.d, !.unk = r.unk, !.hide = Rng(r.hide), !.fv = r.fv]

RECURSIVE Follow(_, _, _, _)
Follow(ev, k, T, G) ==
  IF k > Len(ev) THEN <<>>
  ELSE IF ev[k].op = "mut" THEN Follow(ev, k + 1, ev[k].t, G)
  ELSE LET r == GenNext(T, G)
       IN IF r.out = ev[k].out /\ r.err = ev[k].err THEN Follow(ev, k + 1, T, r.g)
          ELSE <<[k |-> k, out |-> r.out, err |-> r.err]>>

Judged == LET tr == Traces[ti]
              f == Follow(tr.ev, 1, tr.s0, GenOf(tr.gen))
          IN f = <<>> \/ PrintT(ToJson([id |-> tr.id, fail |-> <<"Follow">>, at |-> f[1].k,
                                        exp |-> [out |-> f[1].out, err |-> f[1].err]]))
=============================================================================
