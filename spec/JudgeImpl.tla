------------------------------- MODULE JudgeImpl -------------------------------
(***************************************************************************)
(* Trace validation of the MECHANISM (informational, never an alarm): for  *)
(* one executed public call the harness logged the internal methods the    *)
(* real code entered, in order (wrappers installed from outside).  The     *)
(* machine of EGStructureImpl is started in the logged pre-state with the  *)
(* logged call and run to completion; its history of entered methods and   *)
(* its final graph must equal what was observed.  A deviation means the    *)
(* code no longer works the way this specification says (the properties    *)
(* themselves are judged elsewhere, on the outcome only).                  *)
(***************************************************************************)
EXTENDS EGStructureImpl, Json, IOUtils, TLCExt

Recs == JsonDeserialize(IOEnv.EG_RECORDS)
VARIABLE i
jvars == <<ivars, i>>

JInit == /\ i \in 1..Len(Recs)
         /\ LET r == Recs[i] c == r.c IN
            /\ call = c /\ pre = r.pre /\ raised = FALSE /\ inval = {}
            /\ stk = <<Frame(c.op, c.a)>>
            /\ hist = <<<<c.op, c.a>>>>
            /\ G = IF c.op = "new" THEN [r.pre EXCEPT !.nl = @ + 1, !.kind[r.pre.nl + 1] = c.k] ELSE r.pre
\* run the machine; never start another public call
JNext == /\ stk # <<>> /\ (VAdd \/ LAdd \/ VRem \/ LUnl \/ New \/ SetV \/ UAdd \/ OAdd \/ URem \/ ORem \/ SetLaws \/ SetApp)
         /\ hist' = hist \o Entered
         /\ UNCHANGED i

Conforms ==
  stk = <<>> =>
    LET r == Recs[i] IN
      \/ (G = r.post /\ raised = (r.res.err # "") /\ hist = r.entered)
      \/ PrintT(ToJson([id |-> r.id, hist |-> hist, entered |-> r.entered, same_state |-> (G = r.post)]))
=============================================================================
