-------------------------------- MODULE EGBase --------------------------------
(***************************************************************************)
(* BaseObject as a namespace (beyond the listed properties): dynamic       *)
(* attributes reachable both as attributes and as items, a read-only uid,  *)
(* read-only structural properties, and the one-sided universe list of a   *)
(* plain BaseObject.                                                       *)
(*                                                                         *)
(* State of one object: attrs = sequence of <<name, value>> pairs in       *)
(* insertion order (Python dict order of vars(obj), private fields left    *)
(* out), unis = the universes list.  Names and values are small integers   *)
(* from the executor's menus; ReadOnly is the set of names that are        *)
(* read-only properties of the class under test (uid, universes, and for a *)
(* Vertex also links).                                                     *)
(***************************************************************************)
EXTENDS Naturals, Sequences, FiniteSets, TLC, SequencesExt, Json, IOUtils

CONSTANTS ReadOnly      \* names (ints) that are read-only properties

Has(s, n) == \E i \in DOMAIN s : s[i][1] = n
Val(s, n) == s[CHOOSE i \in DOMAIN s : s[i][1] = n][2]
Put(s, n, v) == IF Has(s, n) THEN [i \in DOMAIN s |-> IF s[i][1] = n THEN <<n, v>> ELSE s[i]] ELSE Append(s, <<n, v>>)
Del(s, n) == SelectSeq(s, LAMBDA p : p[1] # n)

Out(st, err, out) == [st |-> st, err |-> err, out |-> out]

\* obj.name = v   /   obj["name"] = v
Post_Set(T, n, v) == IF n \in ReadOnly THEN {Out(T, TRUE, 0)} ELSE {Out([T EXCEPT !.attrs = Put(@, n, v)], FALSE, 0)}
\* obj.name   /   obj["name"]   (a read-only property answers with its own value: not judged here)
Post_Get(T, n) == IF Has(T.attrs, n) THEN {Out(T, FALSE, Val(T.attrs, n))} ELSE {Out(T, TRUE, 0)}
\* del obj.name   /   del obj["name"]
Post_Del(T, n) == IF n \notin ReadOnly /\ Has(T.attrs, n) THEN {Out([T EXCEPT !.attrs = Del(@, n)], FALSE, 0)}
                  ELSE {Out(T, TRUE, 0)}
\* one-sided universe list of a plain BaseObject
Post_AddU(T, u) == {Out([T EXCEPT !.unis = IF \E i \in DOMAIN @ : @[i] = u THEN @ ELSE Append(@, u)], FALSE, 0)}
Post_RemU(T, u) == IF \E i \in DOMAIN T.unis : T.unis[i] = u
                     THEN {Out([T EXCEPT !.unis = SelectSeq(@, LAMBDA x : x # u)], FALSE, 0)}
                     ELSE {Out(T, TRUE, 0)}

BPostOp(T, c) ==
  CASE c.op \in {"setattr", "setitem"} -> Post_Set(T, c.a[1], c.a[2])
    [] c.op \in {"getattr", "getitem"} -> Post_Get(T, c.a[1])
    [] c.op \in {"delattr", "delitem"} -> Post_Del(T, c.a[1])
    [] c.op = "addu" -> Post_AddU(T, c.a[1])
    [] c.op = "remu" -> Post_RemU(T, c.a[1])

\* ---- judge: traces of one object, state followed from the logged pre-state ----
Recs == JsonDeserialize(IOEnv.EG_RECORDS)
VARIABLE i
JInit == i \in 1..Len(Recs)
JNext == UNCHANGED i

Explains(o, r) ==
  /\ o.st.attrs = r.post.attrs /\ o.st.unis = r.post.unis
  /\ o.err = (r.res.err # "")
  /\ (~o.err /\ r.c.op \in {"getattr", "getitem"}) => o.out = r.res.out
  /\ r.post.uid_same                 \* the uid never changes, whatever was attempted

Judged == LET r == Recs[i]
          IN IF r.c.op \in {"getattr", "getitem"} /\ r.c.a[1] \in ReadOnly THEN TRUE
             ELSE (\E o \in BPostOp([attrs |-> r.pre.attrs, unis |-> r.pre.unis], r.c) : Explains(o, r))
                  \/ PrintT(ToJson([id |-> r.id, fail |-> <<"Follow">>,
                                    exp |-> (CHOOSE o \in BPostOp([attrs |-> r.pre.attrs, unis |-> r.pre.unis], r.c) : TRUE)]))
=============================================================================
