----------------------------- MODULE JudgeQueries -----------------------------
(***************************************************************************)
(* E3 for the query properties (answer mode).  A record is one REAL graph  *)
(* state S (projection of the real objects) together with the answers the  *)
(* real code gave to a table of queries asked in that state:               *)
(*   probes[j] = [q, a, f, g, M, attr, res]                                *)
(*     q    "nb" | "fl" | "bft" | "dftr" | "dfti" | "ibft" | "idftr" |     *)
(*          "idfti" | "bfs" | "dfsr" | "dfsi"                              *)
(*     a    integer arguments, f / g filter records (EGQueries), M the     *)
(*          members of the universe passed (<<-1>> = None), attr the       *)
(*          attribute class of every object (searches)                     *)
(*     res  [err |-> exception class or "", out |-> object numbers]        *)
(* TLC evaluates the corresponding operator of EGQueries on S and compares.*)
(* Constant Prop selects the property: which probes are judged and which   *)
(* relational clauses are re-evaluated on the LOGGED answers.              *)
(***************************************************************************)
EXTENDS EGQueries, Json, IOUtils, TLCExt

CONSTANT Prop

Recs == JsonDeserialize(IOEnv.EG_RECORDS)

VARIABLE i
Init == i \in 1..Len(Recs)
Next == UNCHANGED i
Spec == Init /\ [][Next]_i

MSet(p) == IF p.M = <<-1>> THEN NoUni ELSE Rng(p.M)

Same(expected, res) ==
  /\ expected.err = (res.err # "")
  /\ (expected.err => (expected.exc = "" \/ expected.exc = res.err))
  /\ (~expected.err => expected.out = res.out)

TravName(q) == CASE q \in {"bft", "ibft"} -> "bft"
                 [] q \in {"dftr", "idftr"} -> "dftr"
                 [] q \in {"dfti", "idfti"} -> "dfti"
SearchTrav(q) == CASE q = "bfs" -> "bft" [] q = "dfsr" -> "dftr" [] q = "dfsi" -> "dfti"

TravOpen(S, dir, unk, fv) == \E v \in 1..S.bv : NbOpen(S, v, dir, unk, fv)

\* where the statement leaves the answer open nothing is judged
IsOpen(S, p) ==
  CASE p.q = "nb" -> NbOpen(S, p.a[1], p.a[2], p.a[3], p.f)
    [] p.q = "fl" -> FLOpen(S, p.a[1], p.a[2], p.a[3] = 1, p.a[4], p.f)
    [] p.q \in {"bft", "dftr", "dfti", "ibft", "idftr", "idfti"} -> TravOpen(S, p.a[2], p.a[3], p.f)
    [] p.q \in {"bfs", "dfsr", "dfsi"} ->
         \* the traversal itself raises: C08 says nothing
         Trav(SearchTrav(p.q), S, MSet(p), p.a[1], FWD, UNK_ERR, NoFilter, NoFilter).err

\* the specification's answer
Expect(S, p) ==
  CASE p.q = "nb" -> Nb(S, p.a[1], p.a[2], p.a[3], p.f)
    [] p.q = "fl" -> FindLinks(S, p.a[1], p.a[2], p.a[3] = 1, p.a[4], p.f)
    [] p.q \in {"bft", "dftr", "dfti", "ibft", "idftr", "idfti"} ->
         Trav(TravName(p.q), S, MSet(p), p.a[1], p.a[2], p.a[3], p.f, p.g)
    [] p.q \in {"bfs", "dfsr", "dfsi"} ->
         LET t == Trav(SearchTrav(p.q), S, MSet(p), p.a[1], FWD, UNK_ERR, NoFilter, NoFilter)
         IN QOk(<<FirstMatch(p.attr, t.out, p.a[2])>>)

\* a search started at a vertex that is not in the universe: C08 fixes no answer (the code raises), only that
\* "a vertex outside the universe is never returned"
ForeignStart(p) == p.q \in {"bfs", "dfsr", "dfsi"} /\ MSet(p) # NoUni /\ p.a[1] \notin MSet(p)
ForeignOK(p) == p.res.err # "" \/ p.res.out = <<0>> \/ (Len(p.res.out) = 1 /\ p.res.out[1] \in MSet(p))

ProbeOK(S, p) == IF ForeignStart(p) THEN ForeignOK(p) ELSE IsOpen(S, p) \/ Same(Expect(S, p), p.res)

\* relational clauses on the LOGGED answers (link-only filters)
NbIdx(r, dir) == {j \in DOMAIN r.probes :
                    LET p == r.probes[j] IN p.q = "nb" /\ p.a[2] = dir /\ p.f.V = <<>> /\ p.res.err = ""}
LoggedDuality(r) ==
  \A j \in NbIdx(r, FWD), k \in NbIdx(r, BWD) :
    LET p == r.probes[j] q == r.probes[k] IN
      (p.a[3] = q.a[3] /\ p.f = q.f) => Count(p.res.out, q.a[1]) = Count(q.res.out, p.a[1])

FlIdx(r) == {j \in DOMAIN r.probes : LET p == r.probes[j] IN p.q = "fl" /\ p.f.V = <<>> /\ p.res.err = ""}
LoggedFindLinksVsNb(r) ==
  \A j \in FlIdx(r) :
    LET p == r.probes[j] IN
      \A k \in NbIdx(r, IF p.a[3] = 1 THEN FWD ELSE ANY) :
        LET q == r.probes[k] IN
          (p.a[1] = q.a[1] /\ p.f = q.f /\ p.a[4] = q.a[3]) => Len(p.res.out) = Count(q.res.out, p.a[2])

BadProbes(r) == {j \in DOMAIN r.probes : ~ProbeOK(r.S, r.probes[j])}

Relational(r) ==
  CASE Prop = "C04" -> IF LoggedDuality(r) THEN {} ELSE {"Duality"}
    [] Prop = "C09" -> IF LoggedFindLinksVsNb(r) THEN {} ELSE {"FindLinksVsNb"}
    [] OTHER -> {}

Judged ==
  LET r   == Recs[i]
      bad == BadProbes(r)
      rel == Relational(r)
  IN IF bad = {} /\ rel = {} THEN TRUE
     ELSE PrintT(ToJson([id |-> r.id,
                         bad |-> SetToSeqAsc(bad),
                         exp |-> [j \in 1..Cardinality(bad) |->
                                    LET e == Expect(r.S, r.probes[SetToSeqAsc(bad)[j]])
                                    IN [err |-> e.err, out |-> e.out]],
                         rel |-> SetToSeq(rel)]))
=============================================================================
