-------------------------------- MODULE MC_Rand --------------------------------
(***************************************************************************)
(* randgraph with the random module as non-determinism.  One behaviour =   *)
(* one run: Init picks (count, connectivity p/q or the default 5/count,    *)
(* ensurelink); each step draws r_i = randint(1, max(1, i)).  TLC visits   *)
(* EVERY draw sequence (no seed sweep can), checks that the sample size    *)
(* always fits the population, and prints each complete draw sequence for  *)
(* the executor to play into the real code.  For count <= SmallCount the   *)
(* post-condition is also checked over every possible sample.              *)
(***************************************************************************)
EXTENDS EGBuilders, Json

CONSTANTS MaxCount, SmallCount, Formula, DoEmit

VARIABLES run, i, rs
rvars == <<run, i, rs>>

Grid == {<<0, 1>>, <<1, 4>>, <<1, 2>>, <<3, 4>>, <<1, 1>>}

RInit == /\ i = 0 /\ rs = <<>>
         /\ \E count \in 1..MaxCount, ensure \in BOOLEAN :
              \/ \E pq \in Grid : run = [count |-> count, p |-> pq[1], q |-> pq[2], dflt |-> FALSE, ensure |-> ensure]
              \/ run = [count |-> count, p |-> 5, q |-> count, dflt |-> TRUE, ensure |-> ensure]

Draw == /\ i < run.count
        /\ \E r \in 1..RandMax(i) : rs' = Append(rs, r)
        /\ i' = i + 1 /\ UNCHANGED run
RNext == Draw
RSpec == RInit /\ [][RNext]_rvars

\* random.sample(verts, k) needs k <= len(verts)
InvSampleFits ==
  \A r \in 1..RandMax(i) : i < run.count => SampleKF(Formula, run.count, r, run.p, run.q, run.ensure) <= run.count

\* the whole post-condition over every RNG outcome, small counts
InvRandGraphPost ==
  (i = 0 /\ run.count <= SmallCount /\ SampleSizeOK(Formula, run.count, run.p, run.q, run.ensure)) =>
     \A adj \in RandAdjs(0, run.count, run.p, run.q, run.ensure) : \A k \in {"D", "U"} :
        RandGraphPost(TheState(Post_LoadAdjDict(BaseState(run.count, 0, FALSE), adj, k)), 1, run.count, k, run.ensure, 1)

REmit == (DoEmit /\ i' = run.count) => PrintT(ToJson([run |-> run, rs |-> rs']))
=============================================================================
