----------------------------- MODULE JudgePickle -----------------------------
(***************************************************************************)
(* E3 for the pickler mechanism (C10 b).  A record holds                   *)
(*   tree : the emission tree of the RECURSIVE reference pickler on the    *)
(*          object (node n = item list of the n-th save() call; items      *)
(*          [t, x] with t in {"W", "M", "S"}, x a chunk id / child node),  *)
(*   lazy : the real writes / memoisations the REAL lazy pickler performed,*)
(*          in order, with the same chunk ids.                             *)
(* The real effect sequence must be what the specified queue algorithm     *)
(* (EGPickle!TreeLazy) produces from the tree, and equal the recursive     *)
(* stream (EGPickle!TreeRec).                                              *)
(***************************************************************************)
EXTENDS EGPickle, Json, IOUtils, TLCExt

Recs == JsonDeserialize(IOEnv.EG_RECORDS)
VARIABLE i
\* (the variables of the machine in EGPickle are not used by the judge)
JInit == /\ i \in 1..Len(Recs)
         /\ pre = <<>> /\ post = <<>> /\ root = 0 /\ lw = <<>> /\ lws = <<>> /\ out = <<>> /\ memo = {} /\ pc = "judge"
JNext == UNCHANGED <<i, pvars>>

Strip(items) == [j \in DOMAIN items |-> [t |-> items[j].t, x |-> items[j].x]]
Tag(b, name) == IF b THEN {} ELSE {name}

Fails(r) ==
       Tag(r.err = "", "DumpSucceeds")
  \cup (IF r.err # "" THEN {} ELSE
          Tag(Strip(TreeLazy(r.tree)) = r.lazy, "LazyEffectsFollowQueueSpec")
     \cup Tag(Strip(TreeRec(r.tree)) = r.lazy, "EqualsRecursiveStream"))

Judged == LET r == Recs[i] f == Fails(r)
          IN f = {} \/ PrintT(ToJson([id |-> r.id, fail |-> SetToSeq(f),
                                      exp |-> [n |-> IF r.err = "" THEN Len(TreeRec(r.tree)) ELSE 0, got |-> Len(r.lazy)]]))
=============================================================================
