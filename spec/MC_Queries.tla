------------------------------ MODULE MC_Queries ------------------------------
(***************************************************************************)
(* Graphs are enumerated as the reachable states of the construction and   *)
(* mutation calls of MC_Struct (so every `links' order the API can produce *)
(* is covered); on every such graph TLC checks the lemmas that connect the *)
(* operational query operators of EGQueries (mirrors of the loops in the   *)
(* code) with the declarative notions the properties are stated in.        *)
(***************************************************************************)
EXTENDS MC_Struct, EGQueries

Filters  == {NoFilter,
             [t |-> "all", L |-> <<>>, V |-> <<>>],
             [t |-> "rej", L |-> <<>>, V |-> <<>>],
             [t |-> "sel", L |-> <<1>>, V |-> <<>>],
             [t |-> "sel", L |-> <<>>, V |-> <<2>>]}
TFilters == {NoFilter, [t |-> "sel", L |-> <<1>>, V |-> <<>>], [t |-> "sel", L |-> <<>>, V |-> <<2>>]}

BV      == 1..S.bv
QV      == {v \in BV : QDom(S, v)}
AllQDom == \A v \in BV : QDom(S, v)
NoNone  == \A e \in BornLinks(S) : ~Has(S.ends[e], None)
MSets   == (IF NoNone THEN {NoUni} ELSE {}) \cup (SUBSET BV \ {{}})
Starts(M) == IF M = NoUni THEN BV ELSE M

\* (duality can only be expected of a filter that decides on the link alone: the
\* callback sees a different "other end" on each side)
LinkOnly(f)      == f.V = <<>>
InvNbDuality     == \A unk \in 0..2, f \in {g \in Filters : LinkOnly(g)} : NbDuality(S, QV, unk, f)
InvFindLinksVsNb == \A unk \in 0..2, f \in {g \in Filters : LinkOnly(g)} : FindLinksVsNb(S, QV, unk, f)
InvUnlinkEmpties == \A a, b \in QV : UnlinkEmpties(S, a, b, Filters)
InvAnyIncludesAll ==
  \A v \in QV, unk \in 0..2 : ~NbErr(S, v, ANY, unk, NoFilter) /\ Len(NbList(S, v, ANY, unk, NoFilter)) = Len(S.vl[v])

InvTravExact ==
  AllQDom => \A M \in MSets : \A s \in Starts(M) : \A dir \in 0..2, unk \in 0..2, fv \in TFilters :
               TravExact(S, M, s, dir, unk, fv)
InvTravOrder ==
  AllQDom => \A M \in MSets : \A s \in Starts(M) : \A dir \in 0..2, unk \in 0..2, fv \in TFilters :
               TravOrder(S, M, s, dir, unk, fv)
\* ff_result only removes entries from the listing
InvResultFilter ==
  AllQDom => \A M \in MSets : \A s \in Starts(M) : \A which \in {"bft", "dftr", "dfti"} :
     LET fr  == [t |-> "sel", L |-> <<>>, V |-> <<1>>]
         raw == Trav(which, S, M, s, FWD, UNK_SKIP, NoFilter, NoFilter)
         flt == Trav(which, S, M, s, FWD, UNK_SKIP, NoFilter, fr)
     IN flt.out = SelectSeq(raw.out, LAMBDA w : w = 1)
InvSearchOK ==
  AllQDom => \A attr \in [Obj -> 0..2] : \A M \in MSets : \A s \in Starts(M) : \A val \in 1..2 :
               SearchOK(S, attr, M, s, val)
=============================================================================
