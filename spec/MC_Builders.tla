------------------------------ MODULE MC_Builders ------------------------------
(***************************************************************************)
(* Generation / lemma harness for the adjacency builders.  A short prefix  *)
(* of structural calls (MC_Struct) produces pre-states with prior links    *)
(* and universes; then ONE builder call with every input over the pool is  *)
(* made (done = TRUE afterwards).  TLC checks the read-back lemmas for     *)
(* every (pre-state, input) pair and emits the calls for the executor.     *)
(***************************************************************************)
EXTENDS MC_Struct, EGBuilders

CONSTANTS BKinds,     \* link kinds passed as linktype
          MaxKeys, MaxVals,   \* adjacency dict bounds
          MaxSide, MaxRows, MaxRowLen,  \* matrix bounds (ragged shapes included)
          PreDepth    \* at most this many structural calls before the builder call

VARIABLE done
bvars == <<S, last, done>>
BView == <<S, done>>

BV == 1..S.bv
KeySeqs == UNION {Arrangements(BV, n) : n \in 0..MaxKeys}
AdjSet  == UNION {{[i \in 1..Len(ks) |-> <<ks[i]>> \o vals[i]] : vals \in [1..Len(ks) -> SeqsUpTo(BV, MaxVals)]}
                  : ks \in KeySeqs}
RowSet  == SeqsUpTo(SeqsUpTo({0, 1}, MaxRowLen), MaxRows)
SideSet == SeqsUpTo(BV, MaxSide)

BuilderCalls ==
       {Call("loaddict", k, EncodeAdj(adj), <<>>) : k \in BKinds, adj \in AdjSet}
  \cup {Call("loadmat", k, side, EncodeRows(rows)) : k \in BKinds, side \in SideSet, rows \in RowSet}

Fits(c) == \A o \in BPost(S, c) : o.st.nl <= NL

BInit == Init /\ done = FALSE
Prefix == ~done /\ TLCGet("level") <= PreDepth /\ Next /\ done' = FALSE
Build  == /\ ~done /\ done' = TRUE
          /\ \E c \in BuilderCalls :
               /\ S.bu < NU /\ S.nl + 8 <= NL
               /\ \E o \in BPost(S, c) : S' = o.st /\ last' = [c |-> c, err |-> o.err, out |-> o.out]
BNext == Prefix \/ Build
BSpec == BInit /\ [][BNext]_bvars

BEmit == DoEmit => PrintT(ToJson([c |-> last'.c, s |-> S, t |-> S']))

\* lemmas: for every pre-state and every input the result reads back as the input
InvReadBackDict == ~done => \A k \in BKinds, adj \in AdjSet : (S.bu < NU /\ S.nl + 8 <= NL) => ReadBackDict(S, adj, k)
InvReadBackMatrix ==
  ~done => \A k \in BKinds, side \in SideSet, rows \in RowSet : (S.bu < NU /\ S.nl + 8 <= NL) => ReadBackMatrix(S, side, rows, k)
\* bad shapes are rejected whole (by construction of Post_LoadAdjMatrix; guards the spec)
BadInputAtomic == [][(last'.c.op = "loadmat" /\ last'.err) => S' = S]_bvars
InvStruct == StructInv(S)
=============================================================================
