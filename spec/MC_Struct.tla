------------------------------ MODULE MC_Struct ------------------------------
(***************************************************************************)
(* Model-checking / generation harness over EGStructure.                   *)
(*                                                                         *)
(* Next offers, in every state, every public call of the enabled families  *)
(* with every argument combination over the pool (including None and every *)
(* aliasing of the arguments).  TLC (a) checks the design-level invariants *)
(* and action properties on every reachable state, and (b) through the     *)
(* ACTION_CONSTRAINT Emit prints every generated transition as one JSON    *)
(* line; the label variable `last' is hidden from fingerprinting by VIEW,  *)
(* so every (state, call) pair is generated exactly once.                  *)
(***************************************************************************)
EXTENDS EGStructure, Json

CONSTANTS Kinds,      \* two-ended link kinds offered to constructors
          UseN,       \* BOOLEAN: also create n-ary links (kind "N")
          MaxEnds,    \* bound on Len(ends[e]) (Link.add_vertex is unbounded)
          MaxArg,     \* bound on the length of constructor sequence arguments
          Fams,       \* enabled call families: subset of {"link","expl","uni","new","laws"}
          InitBV, InitBU,   \* objects that exist initially
          UniEnds,    \* BOOLEAN: universes may be link ends too
          DoEmit,     \* BOOLEAN: print transitions
          OnlyOps,    \* if non-empty, only calls with these op names are offered
          AllowNone   \* BOOLEAN: None is offered as an end / argument of link calls

VARIABLES S, last

vars == <<S, last>>
View == S

SeqsUpTo(T, n) == UNION {[1..m -> T] : m \in 0..n}

NoneArg   == IF AllowNone THEN {0} ELSE {}
EndObjs   == (1..S.bv) \cup (IF UniEnds THEN {UObj(k) : k \in 1..S.bu} ELSE {})
BornUnis  == {UObj(k) : k \in 1..S.bu}
BornLaws  == {L \in Laws : S.bl[L]}
TwoLinks  == {e \in BornLinks(S) : S.kind[e] \in TwoKinds}

LinkCalls ==
  (IF S.nl < NL
     THEN {Call("new", k, <<x, y>>, <<>>) : k \in Kinds, x \in EndObjs \cup NoneArg, y \in EndObjs \cup NoneArg}
          \cup (IF UseN THEN {Call("lnew", "N", vs, <<>>) : vs \in SeqsUpTo(EndObjs \cup NoneArg, MaxArg)} ELSE {})
     ELSE {})
  \cup {Call("setv", "", <<e, i, n>>, <<>>) : e \in TwoLinks, i \in {1, 2}, n \in EndObjs \cup NoneArg}
  \cup {Call("vadd", "", <<v, e>>, <<>>) : v \in EndObjs, e \in BornLinks(S)}
  \cup {Call("vrem", "", <<v, e>>, <<>>) : v \in EndObjs, e \in BornLinks(S)}
  \cup {Call("ladd", "", <<e, v>>, <<>>) : e \in BornLinks(S), v \in EndObjs \cup NoneArg}
  \cup {Call("lunl", "", <<e, v>>, <<>>) : e \in BornLinks(S), v \in EndObjs \cup NoneArg}

ExplCalls ==
  (IF S.nl < NL
     THEN {Call("link", k, <<x, y, d>>, <<>>) : k \in Kinds, x \in EndObjs, y \in EndObjs, d \in {0, 1}}
          \cup {Call(op, "", <<x, y, d>>, <<>>) : op \in {"linkd", "linku"}, x \in EndObjs, y \in EndObjs, d \in {0, 1}}
     ELSE {Call("link", k, <<p[1], p[2], 1>>, <<>>) :
              k \in Kinds,
              p \in {q \in EndObjs \X EndObjs : QDom(S, q[1]) /\ Joining(S, q[1], q[2]) # {}}})
  \cup {Call("unlink", "", <<x, y, d>>, <<>>) : x \in EndObjs, y \in EndObjs, d \in {0, 1}}

UniCalls ==
     {Call("uadd", "", <<k, o>>, <<>>) : k \in 1..S.bu, o \in BornObj(S)}
  \cup {Call("urem", "", <<k, o>>, <<>>) : k \in 1..S.bu, o \in BornObj(S)}
  \cup {Call("oadd", "", <<o, k>>, <<>>) : o \in BornObj(S), k \in 1..S.bu}
  \cup {Call("orem", "", <<o, k>>, <<>>) : o \in BornObj(S), k \in 1..S.bu}

NewCalls ==
  (IF S.bv < NV
     THEN {Call("vnew", "", ls, us) : ls \in SeqsUpTo(BornLinks(S), IF "link" \in Fams THEN MaxArg ELSE 0),
                                      us \in SeqsUpTo(BornUnis, MaxArg)}
     ELSE {})
  \cup
  (IF S.bu < NU
     THEN {Call("unew", "", vs, <<L>>) : vs \in SeqsUpTo(BornObj(S), MaxArg),
                                         L \in {0} \cup (IF "laws" \in Fams THEN BornLaws ELSE {})}
     ELSE {})

LawCalls ==
     {Call("setlaws", "", <<k, L>>, <<>>) : k \in 1..S.bu, L \in {0} \cup BornLaws}
  \cup {Call("setapp", "", <<L, uo>>, <<>>) : L \in BornLaws, uo \in {0} \cup BornUnis}

AllCalls == (IF "link" \in Fams THEN LinkCalls ELSE {})
    \cup (IF "expl" \in Fams THEN ExplCalls ELSE {})
    \cup (IF "uni"  \in Fams THEN UniCalls  ELSE {})
    \cup (IF "new"  \in Fams THEN NewCalls  ELSE {})
    \cup (IF "laws" \in Fams THEN LawCalls  ELSE {})

Calls == IF OnlyOps = {} THEN AllCalls ELSE {c \in AllCalls : c.op \in OnlyOps}

Init == /\ S = BaseState(InitBV, InitBU, TRUE)
        /\ last = [c |-> Call("init", "", <<>>, <<>>), err |-> FALSE, out |-> <<>>]

Do(c) == /\ InDomain(S, c)
         /\ \E o \in Post(S, c) :
               /\ S' = o.st
               /\ last' = [c |-> c, err |-> o.err, out |-> o.out]

Next == \E c \in Calls : Do(c)

Spec == Init /\ [][Next]_vars

\* state constraint: Link.add_vertex / add_to_link can grow an end list for ever
Bound == \A e \in Links : Len(S.ends[e]) <= MaxEnds

Emit == DoEmit => PrintT(ToJson([c |-> last'.c, s |-> S, t |-> S']))

-----------------------------------------------------------------------------
(* Invariants (one INVARIANT line each) *)
InvType         == TypeOK(S)
InvLinkSym      == LinkSym(S)
InvNoDupLinks   == NoDupLinks(S)
InvUniSym       == UniSym(S)
InvNoDupMembers == NoDupMembers(S)
InvNoDupUnis    == NoDupUnis(S)
InvLawsSym      == LawsSym(S)

(* Action properties *)

\* C02: Universe.vertices is in insertion order: a step changes the member
\* list of an existing universe only by appending one object or deleting one,
\* everything else keeping its relative order
IsAppendOne(s, t) == Len(t) = Len(s) + 1 /\ SubSeq(t, 1, Len(s)) = s
IsDeleteOne(s, t) == \E i \in DOMAIN s : t = SubSeq(s, 1, i-1) \o SubSeq(s, i+1, Len(s))
InsertionOrder ==
  [][\A k \in 1..S.bu : \/ S'.members[k] = S.members[k]
                        \/ IsAppendOne(S.members[k], S'.members[k])
                        \/ IsDeleteOne(S.members[k], S'.members[k])]_vars

\* C02/C03: a call that raises changes nothing
RaiseIsAtomic == [][last'.err => S' = S]_vars

\* C03 frame: link calls never touch universes or laws; universe calls never
\* touch links or laws; laws calls never touch links or membership
FrameLinks ==
  [][last'.c.op \in LinkOps => /\ S'.unis = S.unis /\ S'.members = S.members
                               /\ S'.laws = S.laws /\ S'.app = S.app]_vars
FrameUnis ==
  [][last'.c.op \in UniOps => /\ S'.ends = S.ends /\ S'.vl = S.vl /\ S'.kind = S.kind
                              /\ S'.laws = S.laws /\ S'.app = S.app]_vars
FrameLaws ==
  [][last'.c.op \in LawOps => /\ S'.ends = S.ends /\ S'.vl = S.vl
                              /\ S'.unis = S.unis /\ S'.members = S.members]_vars

\* C03: a link call leaves every other link, and the links of every vertex it
\* does not name, untouched (unlink may touch every joining link)
NamedVert(c) == IF c.op = "setv" THEN {c.a[3]}
                ELSE IF c.op \in {"vadd", "vrem"} THEN {c.a[1]} ELSE {c.a[2]}
FrameOtherVertices ==
  [][last'.c.op \in {"setv", "vadd", "vrem", "ladd", "lunl"} =>
       LET c == last'.c
           e == IF c.op \in {"vadd", "vrem"} THEN c.a[2] ELSE c.a[1]
       IN /\ \A f \in Links \ {e} : S'.ends[f] = S.ends[f]
          /\ \A o \in Obj : (o \notin Rng(S.ends[e]) \cup NamedVert(c)) => S'.vl[o] = S.vl[o]
          /\ \A o \in Obj : Without(S'.vl[o], e) = Without(S.vl[o], e)]_vars
=============================================================================
