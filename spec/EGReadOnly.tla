------------------------------ MODULE EGReadOnly ------------------------------
(***************************************************************************)
(* Read-only operations and exchanged containers (C12, C13).               *)
(*                                                                         *)
(* The observable graph G is opaque here (a model value per "version");    *)
(* what matters is WHEN it may change:                                     *)
(*  * a read-only operation - whatever user callback raises, at whichever  *)
(*    of its invocations - ends with G unchanged and no attribute added;   *)
(*  * mutating a container the library handed out, or one the client       *)
(*    passed in earlier, changes nothing.                                  *)
(* The one read-only operation with a mechanism worth modelling is the     *)
(* PyVis export, which TAGS every member vertex with a temporary attribute *)
(* (phase "tag", calling rvfunc per vertex), EMITS edges (phase "emit",    *)
(* calling refunc per edge) and UNTAGS.  A callback may raise at any       *)
(* invocation (Fault); Cleanup = "always" is the reference mechanism       *)
(* (try/finally), Cleanup = "success-only" the unrepaired one (negative    *)
(* control: TLC must find an exit with tags left behind).                  *)
(***************************************************************************)
EXTENDS Naturals, Sequences, FiniteSets, TLC

CONSTANTS NVert,        \* member vertices 1..NVert
          NEdge,        \* edges emitted 1..NEdge
          Cleanup       \* "always" | "success-only"

VARIABLES pc,           \* "idle" | "tag" | "emit" | "untag" | "done" | "raised"
          i,            \* progress within the phase
          tmp,          \* vertices currently carrying the temporary attribute
          graph         \* version of the observable graph (never changes: read-only)

rvars == <<pc, i, tmp, graph>>

ROInit == pc = "idle" /\ i = 0 /\ tmp = {} /\ graph = 0

Start == pc = "idle" /\ pc' = "tag" /\ i' = 0 /\ UNCHANGED <<tmp, graph>>

\* rvfunc(vertex i+1) is called, then the vertex is tagged
TagOne == /\ pc = "tag" /\ i < NVert
          /\ tmp' = tmp \cup {i + 1} /\ i' = i + 1 /\ UNCHANGED <<pc, graph>>
TagDone == pc = "tag" /\ i = NVert /\ pc' = "emit" /\ i' = 0 /\ UNCHANGED <<tmp, graph>>
\* refunc(edge i+1) is called, the edge is added to the network
EmitOne == pc = "emit" /\ i < NEdge /\ i' = i + 1 /\ UNCHANGED <<pc, tmp, graph>>
EmitDone == pc = "emit" /\ i = NEdge /\ pc' = "untag" /\ UNCHANGED <<i, tmp, graph>>
Untag == pc = "untag" /\ tmp' = {} /\ pc' = "done" /\ UNCHANGED <<i, graph>>

\* a user callback raises at the current invocation (rvfunc in "tag", refunc in "emit")
Fault == /\ \/ (pc = "tag" /\ i < NVert)
            \/ (pc = "emit" /\ i < NEdge)
         /\ pc' = "raised"
         /\ tmp' = IF Cleanup = "always" THEN {} ELSE tmp
         /\ UNCHANGED <<i, graph>>

\* the next call starts from whatever the previous one left behind
Again == pc \in {"done", "raised"} /\ pc' = "idle" /\ i' = 0 /\ UNCHANGED <<tmp, graph>>

RONext == Start \/ TagOne \/ TagDone \/ EmitOne \/ EmitDone \/ Untag \/ Fault \/ Again
ROSpec == ROInit /\ [][RONext]_rvars

\* C13: however the call ends, no temporary attribute is left on any vertex
TmpClearedOnEveryExit == pc \in {"idle", "done", "raised"} => tmp = {}
\* C13: a read-only operation never changes the observable graph
ReadOnlyFrame == [][graph' = graph]_rvars
=============================================================================
