------------------------------- MODULE EGRender -------------------------------
(***************************************************************************)
(* What the three renderers must produce, as abstract outputs computed     *)
(* from an EGStructure state S and the ORDERED member list M of the        *)
(* universe rendered (the text / network produced by the real code is      *)
(* parsed back into the same abstract form by the executor).               *)
(***************************************************************************)
EXTENDS EGQueries, Bags

\* ---------------------------------------------------------------------------
\* C16 basic_render: one line per member, in universe order or sorted by the
\* key; each line = the vertex and its FORWARD neighbours in neighbors() order
\* (sorted by the key when given).  rank[o] is the sort key of object o, rank0
\* the key of None.
Key(rank, rank0, w) == IF w = None THEN rank0 ELSE rank[w]
SortByKey(s, rank, rank0) == SortSeq(s, LAMBDA a, b : Key(rank, rank0, a) < Key(rank, rank0, b))

PlainLines(S, M, sorted, rank, rank0) ==
  LET order == IF sorted THEN SortByKey(M, rank, rank0) ELSE M
  IN [j \in DOMAIN order |->
        LET nb == NbList(S, order[j], FWD, UNK_ERR, NoFilter)
        IN [head |-> order[j], nbs |-> IF sorted THEN SortByKey(nb, rank, rank0) ELSE nb]]

PlainRaises(S, M) == \E j \in DOMAIN M : NbErr(S, M[j], FWD, UNK_ERR, NoFilter)

\* ---------------------------------------------------------------------------
\* C14 render_to_plantuml_src.  opts.vtypes : configured vertex classes -> type
\* word; opts.arrows : configured link kinds -> <<v1side, v2side>>.  vcls[o] is
\* the class name of object o.  Classes resolve to the nearest configured
\* ancestor (the hierarchy of the classes the executor uses):
ParentOf(c) == CASE c = "SubSubVertex" -> "SubVertex"
                 [] c = "SubVertex" -> "Vertex"
                 [] c = "D2" -> "D" [] c = "U2" -> "U" [] c = "T2" -> "T"
                 [] c \in {"D", "U", "T"} -> "Link"
                 [] OTHER -> "none"
RECURSIVE Nearest(_, _)
Nearest(c, configured) == IF c \in configured THEN c
                          ELSE IF ParentOf(c) = "none" THEN "none" ELSE Nearest(ParentOf(c), configured)

VType(opts, c)  == opts.vtypes[Nearest(c, DOMAIN opts.vtypes)]
Arrows(opts, k) == opts.arrows[Nearest(k, DOMAIN opts.arrows)]

\* one declaration per member
PumlDecls(S, M, vcls, opts) ==
  SetToBag({[type |-> VType(opts, vcls[M[j]]), v |-> M[j], cls |-> vcls[M[j]]] : j \in DOMAIN M})

Internal(S, M) == {e \in BornLinks(S) : Len(S.ends[e]) = 2 /\ S.ends[e][1] \in Rng(M) /\ S.ends[e][2] \in Rng(M)}
Touching(S, M) == {e \in BornLinks(S) : \E j \in DOMAIN M : Has(S.vl[M[j]], e)}

RelOf(S, e, opts) == [a |-> S.ends[e][1], l |-> Arrows(opts, S.kind[e])[1],
                      r |-> Arrows(opts, S.kind[e])[2], b |-> S.ends[e][2]]

\* exactly one relation line per internal link, v1 -> v2, configured arrow ends
PumlRelBag(S, M, opts) ==
  LET es == SetToSeqAsc(Internal(S, M))
  IN FoldLeft(LAMBDA acc, e : acc (+) SetToBag({RelOf(S, e, opts)}), EmptyBag, es)

SeqToBag(s) == FoldLeft(LAMBDA acc, x : acc (+) SetToBag({x}), EmptyBag, s)

\* every relation line corresponds to a link that exists at a member
RelExists(S, M, opts, rel) == \E e \in Touching(S, M) : Len(S.ends[e]) = 2 /\ RelOf(S, e, opts) = rel

PumlOK(S, M, vcls, opts, decls, rels) ==
  /\ SeqToBag(decls) = PumlDecls(S, M, vcls, opts)
  /\ SeqToBag(SelectSeq(rels, LAMBDA x : x.a \in Rng(M) /\ x.b \in Rng(M))) = PumlRelBag(S, M, opts)
  /\ \A j \in DOMAIN rels : RelExists(S, M, opts, rels[j])

\* links with an end outside every configured class hierarchy, or None ends, make the
\* renderer raise: outside C14's domain
PumlDomain(S, M, vcls, opts) ==
  /\ \A j \in DOMAIN M : Nearest(vcls[M[j]], DOMAIN opts.vtypes) # "none"
  /\ \A e \in Touching(S, M) : /\ Len(S.ends[e]) = 2 /\ ~Has(S.ends[e], None)
                               /\ Nearest(S.kind[e], DOMAIN opts.arrows) # "none"
                               /\ \A x \in Rng(S.ends[e]) : Nearest(vcls[x], DOMAIN opts.vtypes) # "none"

\* ---------------------------------------------------------------------------
\* C15 make_pyvis_net: nodes = <<label>> in id order 0..n-1; edges = [f, t, arrow]
Pos(M, v) == CHOOSE j \in DOMAIN M : M[j] = v
DirLinks(S, M, x, y) == {e \in Internal(S, M) : S.kind[e] \in DirKinds /\ S.ends[e] = <<x, y>>}
UndLinks(S, M, x, y) == {e \in Internal(S, M) : S.kind[e] \notin DirKinds
                                               /\ (S.ends[e] = <<x, y>> \/ S.ends[e] = <<y, x>>)}

PyvisOK(S, M, labels, nodes, edges) ==
  LET n == Len(M) IN
  /\ Len(nodes) = n
  /\ \A j \in 1..n : nodes[j].id = j - 1 /\ nodes[j].label = labels[M[j]]
  /\ \A j \in DOMAIN edges : edges[j].f \in 0..(n-1) /\ edges[j].t \in 0..(n-1)
  \* an arrowed edge i -> j for every directed link m_i -> m_j, one per link
  /\ \A a, b \in 1..n :
        Cardinality({j \in DOMAIN edges : edges[j].arrow /\ edges[j].f = a - 1 /\ edges[j].t = b - 1})
          = Cardinality(DirLinks(S, M, M[a], M[b]))
  \* an arrow-less edge only where a link that is not a directed edge joins the two
  /\ \A j \in DOMAIN edges : ~edges[j].arrow => UndLinks(S, M, M[edges[j].f + 1], M[edges[j].t + 1]) # {}
  \* every internal link (self-loops included) leaves its nodes joined by some edge
  /\ \A e \in Internal(S, M) :
        LET a == Pos(M, S.ends[e][1]) - 1  b == Pos(M, S.ends[e][2]) - 1
        IN \E j \in DOMAIN edges : {edges[j].f, edges[j].t} = {a, b}
=============================================================================
