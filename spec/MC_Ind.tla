-------------------------------- MODULE MC_Ind --------------------------------
(***************************************************************************)
(* One-step INDUCTIVENESS of the structural invariants under the reference *)
(* semantics: the initial states are ALL type-correct states over a tiny    *)
(* pool that satisfy the invariants - reachable or not - and every public   *)
(* call of MC_Struct is taken once from each of them.  If LinkSym,          *)
(* NoDupLinks, UniSym, NoDupMembers, NoDupUnis and LawsSym hold in every    *)
(* successor, they are inductive (not merely true of the reachable states). *)
(***************************************************************************)
EXTENDS MC_Struct

DistinctSeqs(T, n) == {s \in SeqsUpTo(T, n) : NoDupSeq(s)}
VNs == (1..NV) \cup {0}

IndInit ==
  /\ last = [c |-> Call("init", "", <<>>, <<>>), err |-> FALSE, out |-> <<>>]
  /\ \E nl \in 0..NL :
     \E kind \in [Links -> Kinds \cup {NoKind}], ends \in [Links -> SeqsUpTo(VNs, MaxEnds)] :
     \E vl \in [Obj -> DistinctSeqs(1..nl, NL)] :
     \E unis \in [Obj -> DistinctSeqs({UObj(k) : k \in UniIx}, NU)], members \in [UniIx -> DistinctSeqs(Obj, NO)] :
     \E laws \in [UniIx -> {0} \cup Laws], app \in [Laws -> {0} \cup {UObj(k) : k \in UniIx}] :
        /\ S = [nl |-> nl, kind |-> kind, ends |-> ends, vl |-> vl, unis |-> unis, members |-> members,
                laws |-> laws, app |-> app, bv |-> NV, bu |-> NU, bl |-> [L \in Laws |-> TRUE]]
        /\ TypeOK(S) /\ StructInv(S)

OneStep == TLCGet("level") <= 1
=============================================================================
