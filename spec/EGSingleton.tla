----------------------------- MODULE EGSingleton -----------------------------
(***************************************************************************)
(* TrueSingleton and semi_singleton_metaclass as state machines.           *)
(*                                                                         *)
(* Class arrangement (constants, mirrored by the executor's fresh classes):*)
(*  true singletons 1..NTC, TParent[c] = superclass or 0;                  *)
(*  semi-singleton classes 1..NSC, Meta[c] = the metaclass OBJECT used     *)
(*  (two classes may share one; a subclass inherits its parent's),         *)
(*  SParent[c] = superclass or 0.  Arguments are abstract ids 1..NA;       *)
(*  KeyOf[m][a] is the key class of argument a under metaclass m's key     *)
(*  function: for the default function two arguments have the same key iff *)
(*  they are equal as (args, kwargs) values (-1 and -2 differ, keyword     *)
(*  order is irrelevant); a custom hashfunc is whatever the executor       *)
(*  installed (e.g. parity).                                               *)
(*                                                                         *)
(* State T: tinst[c] the live instance of true-singleton class c (0 none); *)
(* smap[c][k] the instance of semi-singleton class c under key k (0 none); *)
(* instances 1..ni with their class, number of __init__ runs and the       *)
(* argument of the first run.  Instance numbers are order of creation.     *)
(***************************************************************************)
EXTENDS Naturals, Sequences, FiniteSets, TLC, SequencesExt, FiniteSetsExt

CONSTANTS NTC, TParent, TNest, NestArg, TClr, NSC, Meta, SParent, NA, NK, KeyOf, NI

\* the class arrangement the executor builds afresh for every replay (cfg: TParent <- ArrTParent ...)
ArrTParent == <<0, 1, 0>>           \* TA, TB(TA), TC
ArrTClr    == <<FALSE, TRUE, FALSE>>   \* TB.__init__ begins with clear_true_singleton(): a constructor that resets the registry
ArrTNest   == <<0, 0, 1>>           \* TC.__init__ constructs TA(NestArg) (a singleton that needs another one: App() -> Config())
ArrMeta    == <<1, 1, 1, 2>>        \* SA(M1), SB(M1: the same metaclass object), SC(SA), SD(M2: custom key function)
ArrSParent == <<0, 0, 1, 0>>
\* argument menu: 1 (-1,)  2 (-2,)  3 (1,)  4 (1.0,)  5 (x=1, y=2)  6 (y=2, x=1)  7 (x=-1)
\* default key: equality of (args, kwargs); custom key of M2: parity of the first / x argument
KeyOf3 == <<<<1, 2, 3>>, <<1, 2, 1>>>>
KeyOf7 == <<<<1, 2, 3, 3, 4, 4, 5>>, <<1, 2, 1, 1, 1, 1, 1>>>>
\* argument 8 is (13,): the executor's classes raise in __init__ for it (a construction that fails)
KeyOf8 == <<<<1, 2, 3, 3, 4, 4, 5, 6>>, <<1, 2, 1, 1, 1, 1, 1, 1>>>>
\* argument 9 is (x=[1, 2]): a keyword argument whose value is unhashable
KeyOf9 == <<<<1, 2, 3, 3, 4, 4, 5, 6, 7>>, <<1, 2, 1, 1, 1, 1, 1, 1, 2>>>>
BadArgs == {8}

TC == 1..NTC
SC == 1..NSC
Args == 1..NA
KeysS == 1..NK
Insts == 1..NI

InitT == [ tinst |-> [c \in TC |-> 0],
           smap  |-> [c \in SC |-> [k \in KeysS |-> 0]],
           ni    |-> 0,
           kindOf |-> [j \in Insts |-> ""],      \* "t" / "s"
           cls   |-> [j \in Insts |-> 0],
           inits |-> [j \in Insts |-> 0],
           arg   |-> [j \in Insts |-> 0] ]

Key(c, a) == KeyOf[Meta[c]][a]

Res(T, err, inst) == [st |-> T, err |-> err, inst |-> inst, out |-> <<>>]

NewInst(T, kind, c, a) ==
  LET j == T.ni + 1
  IN [T EXCEPT !.ni = j, !.kindOf[j] = kind, !.cls[j] = c, !.inits[j] = 1, !.arg[j] = a]

\* C(arg) for a TrueSingleton class
Post_TNew(T, c, a) ==
  IF T.tinst[c] # 0 THEN {Res(T, FALSE, T.tinst[c])}
  ELSE LET T0 == IF TClr[c] THEN [T EXCEPT !.tinst = [d \in TC |-> 0]] ELSE T      \* what __init__ does first
       IN IF a \in BadArgs THEN {Res(T0, TRUE, 0)}        \* __init__ raised: nothing is registered
          ELSE LET U == NewInst(T0, "t", c, a)
                   n == TNest[c]
                   \* a nested first construction inside __init__: the other class gets its instance now, or keeps the one it has
                   V == IF n = 0 \/ U.tinst[n] # 0 THEN U
                        ELSE LET W == NewInst(U, "t", n, NestArg) IN [W EXCEPT !.tinst[n] = W.ni]
               IN {Res([V EXCEPT !.tinst[c] = U.ni], FALSE, U.ni)}

\* clear_true_singleton(C) / clear_true_singleton()  (c = 0)
Post_TClear(T, c) ==
  IF c = 0 THEN {Res([T EXCEPT !.tinst = [d \in TC |-> 0]], FALSE, 0)}
  ELSE {Res([T EXCEPT !.tinst[c] = 0], FALSE, 0)}

\* C(arg) for a semi-singleton class
Post_SNew(T, c, a) ==
  LET k == Key(c, a) IN
  IF T.smap[c][k] # 0 THEN {Res(T, FALSE, T.smap[c][k])}
  ELSE IF a \in BadArgs THEN {Res(T, TRUE, 0)}        \* __init__ raised: nothing is registered, the key stays free
  ELSE LET U == NewInst(T, "s", c, a) IN {Res([U EXCEPT !.smap[c][k] = U.ni], FALSE, U.ni)}

\* add_mapping(obj, arg): obj also answers to arg's key in ITS class
Post_SAdd(T, j, a) ==
  LET c == T.cls[j] IN {Res([T EXCEPT !.smap[c][Key(c, a)] = j], FALSE, 0)}

\* drop_semi_singleton_mapping(C, arg): the statement is silent on dropping a key that is not live
Post_SDrop(T, c, a) ==
  LET k == Key(c, a) IN
  IF T.smap[c][k] # 0 THEN {Res([T EXCEPT !.smap[c][k] = 0], FALSE, 0)}
  ELSE {Res(T, TRUE, 0), Res(T, FALSE, 0)}

\* check_semi_singleton_entry_exists(C, arg): reports, creates nothing
Post_SCheck(T, c, a) == {Res(T, FALSE, T.smap[c][Key(c, a)])}

\* get_all_semi_singleton_instances(C): the live instances of C (as a set)
LiveOf(T, c) == {T.smap[c][k] : k \in KeysS} \ {0}
Post_SGetAll(T, c) ==
  {[st |-> T, err |-> FALSE, inst |-> 0, out |-> SetToSortSeq(LiveOf(T, c), LAMBDA x, y : x < y)]}

\* clear_semi_singleton(C)
Post_SClear(T, c) == {Res([T EXCEPT !.smap[c] = [k \in KeysS |-> 0]], FALSE, 0)}

SCall(op, a) == [op |-> op, a |-> a]

SPost(T, c) ==
  CASE c.op = "tnew"    -> Post_TNew(T, c.a[1], c.a[2])
    [] c.op = "tclear"  -> Post_TClear(T, c.a[1])
    [] c.op = "snew"    -> Post_SNew(T, c.a[1], c.a[2])
    [] c.op = "sadd"    -> Post_SAdd(T, c.a[1], c.a[2])
    [] c.op = "sdrop"   -> Post_SDrop(T, c.a[1], c.a[2])
    [] c.op = "scheck"  -> Post_SCheck(T, c.a[1], c.a[2])
    [] c.op = "sgetall" -> Post_SGetAll(T, c.a[1])
    [] c.op = "sclear"  -> Post_SClear(T, c.a[1])

\* --------------------------------------------------------------------------
\* The properties, as predicates on states / steps of this machine

\* C18: at most one live instance per true-singleton class, of exactly that class
OnePerClass(T) ==
  /\ \A c \in TC : T.tinst[c] # 0 => (T.kindOf[T.tinst[c]] = "t" /\ T.cls[T.tinst[c]] = c)
  /\ \A c, d \in TC : (c # d /\ T.tinst[c] # 0) => T.tinst[c] # T.tinst[d]
\* __init__ ran exactly once for every instance ever created
InitOnce(T) == \A j \in 1..T.ni : T.inits[j] = 1
\* C17: whatever a class's map returns is an instance of that class
InstanceOfCalledClass(T) ==
  \A c \in SC, k \in KeysS : T.smap[c][k] # 0 => (T.kindOf[T.smap[c][k]] = "s" /\ T.cls[T.smap[c][k]] = c)
\* C17: constructing never maps two different keys of a class to one instance
\* (only add_mapping may alias keys, and only within the instance's own class)
=============================================================================
