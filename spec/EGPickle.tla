------------------------------- MODULE EGPickle -------------------------------
(***************************************************************************)
(* nrpickler._NonrecursivePickler: the deferred-save queue that replaces   *)
(* the recursion of pickle / dill.                                         *)
(*                                                                         *)
(* What one execution of the (un-nested) recursive save(o) does is a list  *)
(* of ITEMS: W = write some bytes, M = memoise o, S(c) = save child c.     *)
(* For an object graph with pre[o] (children saved before o is memoised:   *)
(* class / constructor arguments) and post[o] (children saved after: the   *)
(* state, where cycles and sharing live) it is                             *)
(*    GET                       if o is already in the memo                *)
(*    open, S(pre..), mid, M(o), S(post..), close     otherwise            *)
(* - it depends on the memo AT THAT MOMENT, which is why deferring a save  *)
(* is only correct if memo operations are replayed in stream order too.    *)
(*                                                                         *)
(* RecRun is the recursive pickler (the reference).  The lazy machine      *)
(* (variables lw = self.lazywrites, lws = the local list being drained,    *)
(* out, memo, pc) executes dump() one queue entry per step.  Splice says   *)
(* where entries produced by a deferred save go relative to the unprocessed*)
(* tail: "before" (the code) or "after" (negative control).                *)
(***************************************************************************)
EXTENDS Naturals, Sequences, FiniteSets, TLC, SequencesExt

CONSTANTS NObj, MaxPre, MaxPost, Splice

Objs == 1..NObj

W(o, tag) == <<"W", o, tag>>
M(o)      == <<"M", o, "">>
S(o)      == <<"S", o, "">>

VARIABLES pre, post, root,      \* the object graph being pickled (chosen initially, then constant)
          lw, lws, out, memo, pc

pvars == <<pre, post, root, lw, lws, out, memo, pc>>
graph == <<pre, post, root>>

EmitList(o, mm) ==
  IF o \in mm THEN <<W(o, "get")>>
  ELSE <<W(o, "open")>> \o [j \in DOMAIN pre[o] |-> S(pre[o][j])] \o <<W(o, "mid"), M(o)>>
       \o [j \in DOMAIN post[o] |-> S(post[o][j])] \o <<W(o, "close")>>

\* ---- the recursive pickler ------------------------------------------------
RECURSIVE RecSave(_, _), RecItems(_, _)
RecItems(items, st) ==
  IF items = <<>> THEN st
  ELSE LET x == Head(items) IN
       RecItems(Tail(items),
                IF x[1] = "W" THEN [st EXCEPT !.out = Append(@, x)]
                ELSE IF x[1] = "M" THEN [st EXCEPT !.out = Append(@, x), !.memo = @ \cup {x[2]}]
                ELSE RecSave(x[2], st))
RecSave(o, st) == RecItems(EmitList(o, st.memo), st)
RecOut == RecSave(root, [out |-> <<>>, memo |-> {}]).out

\* ---- the lazy pickler -----------------------------------------------------
\* running the items of one realsave: save() always defers; write / memoize are
\* deferred once something is queued (lazywrite / lazymemoize)
RECURSIVE RunItems(_, _)
RunItems(items, st) ==
  IF items = <<>> THEN st
  ELSE LET x == Head(items) IN
       RunItems(Tail(items),
                IF x[1] = "S" \/ st.lw # <<>> THEN [st EXCEPT !.lw = Append(@, x)]
                ELSE IF x[1] = "W" THEN [st EXCEPT !.out = Append(@, x)]
                ELSE [st EXCEPT !.out = Append(@, x), !.memo = @ \cup {x[2]}])

RealSave(o) == RunItems(EmitList(o, memo), [lw |-> lw, out |-> out, memo |-> memo])

\* acyclic pre-children (an object's class / arguments exist before it), any post-children
\* (an object is never reachable from its own pre-children: they are its class and
\* constructor arguments)
Kids(p, q, o) == {p[o][j] : j \in DOMAIN p[o]} \cup {q[o][j] : j \in DOMAIN q[o]}
RECURSIVE Desc(_, _, _)
Desc(p, q, T) == LET T2 == T \cup UNION {Kids(p, q, o) : o \in T} IN IF T2 = T THEN T ELSE Desc(p, q, T2)
GraphOK(p, q) == \A o \in Objs : /\ \A j \in DOMAIN p[o] : p[o][j] < o
                                 /\ o \notin Desc(p, q, {p[o][j] : j \in DOMAIN p[o]})
SeqsUpTo(T, n) == UNION {[1..m -> T] : m \in 0..n}

PInit == /\ pre \in [Objs -> SeqsUpTo(Objs, MaxPre)] /\ post \in [Objs -> SeqsUpTo(Objs, MaxPost)]
         /\ GraphOK(pre, post)
         /\ root = NObj
         /\ lw = <<>> /\ lws = <<>> /\ out = <<>> /\ memo = {} /\ pc = "start"

\* dump(): self.realsave(obj)
Top == /\ pc = "start"
       /\ LET r == RealSave(root) IN lw' = r.lw /\ out' = r.out /\ memo' = r.memo
       /\ pc' = "outer" /\ UNCHANGED <<lws, graph>>

\* while self.lazywrites: lws = self.lazywrites; self.lazywrites = []
Outer == /\ pc = "outer"
         /\ IF lw = <<>> THEN pc' = "done" /\ UNCHANGED <<lw, lws>>
            ELSE lws' = lw /\ lw' = <<>> /\ pc' = "inner"
         /\ UNCHANGED <<out, memo, graph>>

\* while lws: lw = lws.pop(0); ...
Inner == /\ pc = "inner"
         /\ IF lws = <<>> THEN pc' = "outer" /\ UNCHANGED <<lw, lws, out, memo>>
            ELSE LET x == Head(lws) rest == Tail(lws) IN
              IF x[1] = "S"
                THEN LET r == RunItems(EmitList(x[2], memo), [lw |-> <<>>, out |-> out, memo |-> memo]) IN
                     /\ out' = r.out /\ memo' = r.memo
                     /\ IF r.lw # <<>>
                          \* new work appeared: it goes in front of the unprocessed tail
                          THEN /\ lw' = (IF Splice = "before" THEN r.lw \o rest ELSE rest \o r.lw)
                               /\ lws' = <<>> /\ pc' = "outer"
                          ELSE lw' = <<>> /\ lws' = rest /\ pc' = "inner"
              ELSE IF x[1] = "M"
                THEN out' = Append(out, x) /\ memo' = memo \cup {x[2]} /\ lws' = rest /\ pc' = "inner" /\ UNCHANGED lw
                ELSE out' = Append(out, x) /\ lws' = rest /\ pc' = "inner" /\ UNCHANGED <<lw, memo>>
         /\ UNCHANGED graph

PNext == Top \/ Outer \/ Inner
PSpec == PInit /\ [][PNext]_pvars

\* ---- properties -----------------------------------------------------------
\* at every step the bytes written so far are a prefix of the recursive stream
PrefixOK == IsPrefix(out, RecOut)
\* and at the end it is the whole stream
FinalOK == pc = "done" => out = RecOut
\* an object is memoised at most once, and only GET-referenced afterwards
MemoOnce == \A a, b \in DOMAIN out : (out[a][1] = "M" /\ out[b][1] = "M" /\ out[a][2] = out[b][2]) => a = b
GetAfterPut == \A a \in DOMAIN out : out[a] = W(out[a][2], "get") =>
                 \E b \in 1..(a-1) : out[b] = M(out[a][2])
\* shared objects stay shared: every object reachable from the root is opened exactly once
Reach == LET RECURSIVE R(_) R(T) == LET T2 == T \cup UNION {{pre[o][j] : j \in DOMAIN pre[o]} \cup {post[o][j] : j \in DOMAIN post[o]} : o \in T}
                                      IN IF T2 = T THEN T ELSE R(T2)
         IN R({root})
OpenedOnce == pc = "done" =>
  \A o \in Reach : Cardinality({a \in DOMAIN out : out[a] = W(o, "open")}) = 1

\* ===========================================================================
\* Functional form for judging REAL emission trees.  A tree is a sequence of
\* nodes; node n is the item list of the n-th save() of the recursive reference
\* run: items [t |-> "W", x |-> chunk id] / [t |-> "M", x |-> object id] /
\* [t |-> "S", x |-> child node].  TreeRec flattens it the recursive way;
\* TreeLazy runs the queue algorithm above on it.
RECURSIVE TreeRecNode(_, _)
TreeRecNode(tree, n) ==
  FoldLeft(LAMBDA acc, it : IF it.t = "S" THEN acc \o TreeRecNode(tree, it.x) ELSE Append(acc, it), <<>>, tree[n])
TreeRec(tree) == TreeRecNode(tree, 1)

TreeRunItems(items, st) ==
  FoldLeft(LAMBDA acc, it : IF it.t = "S" \/ acc.lw # <<>> THEN [acc EXCEPT !.lw = Append(@, it)]
                            ELSE [acc EXCEPT !.out = Append(@, it)],
           st, items)

RECURSIVE TreeDrain(_, _, _)
\* todo: list being drained, st = [lw, out]
TreeDrain(tree, todo, st) ==
  IF todo = <<>>
    THEN IF st.lw = <<>> THEN st.out ELSE TreeDrain(tree, st.lw, [st EXCEPT !.lw = <<>>])
    ELSE LET x == Head(todo) rest == Tail(todo) IN
         IF x.t = "S"
           THEN LET r == TreeRunItems(tree[x.x], [lw |-> <<>>, out |-> st.out]) IN
                IF r.lw # <<>> THEN TreeDrain(tree, <<>>, [lw |-> r.lw \o rest, out |-> r.out])
                ELSE TreeDrain(tree, rest, [lw |-> <<>>, out |-> r.out])
           ELSE TreeDrain(tree, rest, [st EXCEPT !.out = Append(@, x)])

TreeLazy(tree) ==
  LET r == TreeRunItems(tree[1], [lw |-> <<>>, out |-> <<>>])
  IN TreeDrain(tree, <<>>, r)
=============================================================================
