------------------------------- MODULE EGLaws -------------------------------
(***************************************************************************)
(* C19, second clause: the rule attributes of a UniverseLaws object read   *)
(* back exactly what was passed at construction and cannot be changed.     *)
(*                                                                         *)
(* Values are abstract ids assigned by the executor from a fixed menu      *)
(* (1 = None, 2 = False, 3 = True, 4.. = distinct whitelist dictionaries,  *)
(* compared by deep equality; -1 = something not in the menu).  0 in       *)
(* `given' means the argument was omitted.                                 *)
(***************************************************************************)
EXTENDS Naturals, Sequences, FiniteSets, TLC, Json, IOUtils, SequencesExt

AttrNames == <<"edge_whitelist", "mixed_links", "cycles", "multipath", "multiverse">>
Default   == <<1, 2, 3, 3, 2>>       \* None, False, True, True, False

\* the law-set state: one value per rule attribute, fixed by the constructor
Construct(given) == [i \in 1..5 |-> IF given[i] = 0 THEN Default[i] ELSE given[i]]
\* reading never changes it; an assignment must raise and leave it unchanged
Post_Assign(vals, i, v) == [vals |-> vals, err |-> TRUE]

Recs == JsonDeserialize(IOEnv.EG_RECORDS)
VARIABLE i
Init == i \in 1..Len(Recs)
Next == UNCHANGED i
Spec == Init /\ [][Next]_i

Fails(r) ==
  LET vals == Construct(r.given) IN
     (IF \A j \in 1..5 : r.read[j] = vals[j] THEN {} ELSE {"ReadBack"})
  \cup (IF \A k \in DOMAIN r.sets :
            LET s == r.sets[k] o == Post_Assign(vals, s.attr, s.val)
            IN s.raised = o.err /\ s.after = o.vals[s.attr]
        THEN {} ELSE {"ReadOnly"})
  \cup (IF \A j \in 1..5 : r.reread[j] = vals[j] THEN {} ELSE {"StableAfterBinding"})

Judged == LET r == Recs[i] f == Fails(r)
          IN f = {} \/ PrintT(ToJson([id |-> r.id, fail |-> SetToSeq(f), exp |-> Construct(r.given)]))
=============================================================================
