------------------------------- MODULE EGImage -------------------------------
(* Beyond the listed properties: edgegraph.output.plantuml.render_to_image and is_plantuml_installed.   *)
(*                                                                                                        *)
(* render_to_image(src, out_file, plantuml) validates its arguments, makes a private temporary            *)
(* directory, writes the source there, runs the PlantUML command on it, moves the picture to out_file     *)
(* and removes the temporary directory on EVERY exit (try / finally).  The environment is the adversary: *)
(* the command may be missing, not executable, fail, or succeed without writing a picture; the source     *)
(* may not be encodable; the destination directory may not exist.  One action per statement of the        *)
(* function, one fault point per statement that can raise.                                                 *)
(*                                                                                                        *)
(* Text is a sequence of code points (TLC cannot index strings), so the `.png` test and the encodability  *)
(* test are written on the real characters of the real arguments.                                          *)
EXTENDS Naturals, Sequences, FiniteSets, TLC, Json, IOUtils

CONSTANTS Cleanup      \* "always": the code as written (try / finally) | "success-only": negative control

DotPng == <<46, 112, 110, 103>>
EndsPng(n) == Len(n) >= 4 /\ SubSeq(n, Len(n) - 3, Len(n)) = DotPng
Encodable(s) == \A k \in DOMAIN s : ~(s[k] \in 55296..57343)          \* lone surrogates cannot be written as UTF-8

Tools == {"ok", "fail", "missing", "notexec", "noout"}
Dests == {"fresh", "exists", "missingdir"}

\* ---------------------------------------------------------------- functional form (what the judge uses)
\* exc: class of the exception ("" = returned None); out: what is at out_file afterwards; runs: times the
\* command was started; saw: the command read exactly src from its last argument; left: temp dirs left.
ToolExc(tool) == CASE tool = "missing" -> "FileNotFoundError" [] tool = "notexec" -> "PermissionError"
                   [] tool = "fail" -> "CalledProcessError" [] OTHER -> ""
Old(dest) == IF dest = "exists" THEN "old" ELSE "none"
Final(name, src, tool, dest) ==
  IF ~EndsPng(name) \/ Len(src) = 0 THEN [exc |-> "ValueError", out |-> Old(dest), runs |-> 0, left |-> 0, made |-> 0]
  ELSE IF ~Encodable(src) THEN [exc |-> "UnicodeEncodeError", out |-> Old(dest), runs |-> 0, left |-> 0, made |-> 1]
  ELSE IF ToolExc(tool) # "" THEN [exc |-> ToolExc(tool), out |-> Old(dest), runs |-> IF tool = "fail" THEN 1 ELSE 0, left |-> 0, made |-> 1]
  ELSE IF tool = "noout" \/ dest = "missingdir" THEN [exc |-> "FileNotFoundError", out |-> Old(dest), runs |-> 1, left |-> 0, made |-> 1]
  ELSE [exc |-> "", out |-> "new", runs |-> 1, left |-> 0, made |-> 1]

Installed(tool) == CASE tool \in {"ok", "noout"} -> [exc |-> "", out |-> TRUE, runs |-> 1]
                     [] tool = "fail" -> [exc |-> "", out |-> FALSE, runs |-> 1]
                     [] tool = "missing" -> [exc |-> "", out |-> FALSE, runs |-> 0]
                     [] tool = "notexec" -> [exc |-> "PermissionError", out |-> FALSE, runs |-> 0]    \* not caught by the code: named deviation

\* ---------------------------------------------------------------- the statement-level machine
Names == {<<97>> \o DotPng, DotPng, <<97, 46, 80, 78, 71>>, <<112, 110, 103>>, <<>>, <<97, 46, 112, 110, 103, 32>>}
Srcs == {<<>>, <<64, 115>>, <<64, 56320>>}

VARIABLES sc, pc, tmp, made, wrote, runs, png, out, exc,
          i            \* used by the judge only (index of the record); 0 in the machine
vars == <<sc, pc, tmp, made, wrote, runs, png, out, exc, i>>

Init == /\ sc \in [name : Names, src : Srcs, tool : Tools, dest : Dests]
        /\ pc = "validate" /\ tmp = FALSE /\ made = 0 /\ wrote = FALSE /\ runs = 0 /\ png = FALSE
        /\ out = Old(sc.dest) /\ exc = "" /\ i = 0

Raise(e, to) == exc' = e /\ pc' = to
Validate == /\ pc = "validate"
            /\ IF ~EndsPng(sc.name) \/ Len(sc.src) = 0 THEN Raise("ValueError", "done") ELSE (pc' = "mkdtemp" /\ exc' = exc)
            /\ UNCHANGED <<sc, tmp, made, wrote, runs, png, out>>
MkTmp == /\ pc = "mkdtemp" /\ tmp' = TRUE /\ made' = made + 1 /\ pc' = "write"
         /\ UNCHANGED <<sc, wrote, runs, png, out, exc>>
Write == /\ pc = "write"
         /\ IF Encodable(sc.src) THEN (wrote' = TRUE /\ pc' = "run" /\ exc' = exc) ELSE (wrote' = FALSE /\ Raise("UnicodeEncodeError", "finally"))
         /\ UNCHANGED <<sc, tmp, made, runs, png, out>>
Invoke == /\ pc = "run"
          /\ runs' = IF sc.tool \in {"missing", "notexec"} THEN runs ELSE runs + 1
          /\ png' = (sc.tool = "ok")
          /\ IF ToolExc(sc.tool) # "" THEN Raise(ToolExc(sc.tool), "finally") ELSE (pc' = "move" /\ exc' = exc)
          /\ UNCHANGED <<sc, tmp, made, wrote, out>>
Move == /\ pc = "move"
        /\ IF png /\ sc.dest # "missingdir" THEN (out' = "new" /\ png' = FALSE /\ pc' = "finally" /\ exc' = exc)
           ELSE (Raise("FileNotFoundError", "finally") /\ UNCHANGED <<out, png>>)
        /\ UNCHANGED <<sc, tmp, made, wrote, runs>>
Finally == /\ pc = "finally"
           /\ tmp' = IF Cleanup = "always" \/ exc = "" THEN FALSE ELSE tmp
           /\ png' = IF tmp' THEN png ELSE FALSE
           /\ pc' = "done"
           /\ UNCHANGED <<sc, made, wrote, runs, out, exc>>
Next == (Validate \/ MkTmp \/ Write \/ Invoke \/ Move \/ Finally) /\ UNCHANGED i
Spec == Init /\ [][Next]_vars /\ WF_vars(Next)

\* ---------------------------------------------------------------- checked on the machine
TypeOK == pc \in {"validate", "mkdtemp", "write", "run", "move", "finally", "done"} /\ runs \in 0..1 /\ made \in 0..1
TmpRemovedOnEveryExit == pc = "done" => ~tmp
ValidationBeforeEffects == exc = "ValueError" => made = 0 /\ runs = 0 /\ out = Old(sc.dest)
RunsOnWrittenSource == runs = 1 => wrote
PictureOnlyOnSuccess == pc = "done" => ((out = "new") <=> (exc = ""))
OldPictureKeptOnFailure == (pc = "done" /\ exc # "") => out = Old(sc.dest)
MachineIsFinal == pc = "done" => [exc |-> exc, out |-> out, runs |-> runs, left |-> IF tmp THEN 1 ELSE 0, made |-> made]
                                  = Final(sc.name, sc.src, sc.tool, sc.dest)
Terminates == <>(pc = "done")

\* ---------------------------------------------------------------- judge: one record per real call
Recs == JsonDeserialize(IOEnv.EG_RECORDS)
JInit == /\ i \in 1..Len(Recs)
         /\ sc = 0 /\ pc = "judge" /\ tmp = FALSE /\ made = 0 /\ wrote = FALSE /\ runs = 0 /\ png = FALSE /\ out = "none" /\ exc = ""
JNext == UNCHANGED vars
Fails(r) ==
  IF r.fn = "render"
  THEN LET f == Final(r.name, r.src, r.tool, r.dest)
       IN (IF r.exc # f.exc THEN <<"Exception">> ELSE <<>>)
          \o (IF r.out # f.out THEN <<"OutFile">> ELSE <<>>)
          \o (IF r.runs # f.runs THEN <<"Runs">> ELSE <<>>)
          \o (IF r.left # f.left THEN <<"TempDirLeft">> ELSE <<>>)
          \o (IF r.made # f.made THEN <<"TempDirsMade">> ELSE <<>>)
          \o (IF f.runs = 1 /\ ~(r.saw_src /\ r.argv_ok /\ r.env_ok /\ r.in_tmp) THEN <<"Invocation">> ELSE <<>>)
  ELSE LET f == Installed(r.tool)
       IN (IF r.exc # f.exc THEN <<"Exception">> ELSE <<>>)
          \o (IF f.exc = "" /\ r.out # f.out THEN <<"Answer">> ELSE <<>>)
          \o (IF r.runs # f.runs THEN <<"Runs">> ELSE <<>>)
          \o (IF f.runs = 1 /\ ~(r.argv_ok /\ r.env_ok) THEN <<"Invocation">> ELSE <<>>)
Judged == LET r == Recs[i] IN Fails(r) = <<>> \/ PrintT(ToJson([id |-> r.id, fail |-> Fails(r)]))
=============================================================================
