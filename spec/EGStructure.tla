----------------------------- MODULE EGStructure -----------------------------
(***************************************************************************)
(* Abstract state of an edgegraph object graph and the reference semantics *)
(* of every public construction / mutation call, written as a FUNCTIONAL   *)
(* CORE: every call `op' is an operator Post_op(S, args) that returns the  *)
(* SET of outcomes [st, err, exc, out] the listed properties allow when    *)
(* the call is made in state S.  The model-checking modules MC_Struct etc. turn    *)
(* the operators into actions (\E o \in Post_op(S, ..) : S' = o.st) and    *)
(* the trace judges (the Judge modules) test a logged real outcome for membership.    *)
(*                                                                         *)
(* Objects are small integers.  0 is Python's None.  1..NV are plain       *)
(* vertices, NV+1..NV+NU are universes (a Universe IS a Vertex: it has     *)
(* links and universes of its own and may be a member of a universe,       *)
(* itself included).  Link slots 1..NL are born in increasing order, so    *)
(* S.nl is the number of links created so far.  Law sets 1..NU are the     *)
(* default law sets created by Universe() for universe 1..NU, law sets     *)
(* NU+1..NLaw are free-standing UniverseLaws() objects.                    *)
(*                                                                         *)
(* Every function-valued field has a domain 1..n so that ToJson writes it  *)
(* as an array and JsonDeserialize reads a real projection back as a tuple *)
(* that TLC compares equal to it.                                          *)
(***************************************************************************)
EXTENDS Naturals, Sequences, FiniteSets, TLC, SequencesExt, FiniteSetsExt

CONSTANTS NV,      \* number of plain vertices in the pool
          NU,      \* number of universes in the pool
          NL,      \* number of link slots
          NLaw     \* number of law sets (>= NU)

None   == 0
NO     == NV + NU
Obj    == 1..NO
Vert   == 1..NV
UniIx  == 1..NU
Links  == 1..NL
Laws   == 1..NLaw
UObj(k) == NV + k           \* object number of universe k
UIx(o)  == o - NV           \* universe index of object o (o > NV)
IsUni(o) == o > NV

TwoKinds  == {"D", "U", "T", "D2", "U2", "T2"}   \* DirectedEdge, UnDirectedEdge, TwoEndedLink, a subclass of each
NaryKinds == {"N"}                               \* a plain subclass of Link (any number of ends)
DirKinds  == {"D", "D2"}
UndKinds  == {"U", "U2"}
UnkKinds  == {"T", "T2"}                         \* two-ended, neither directed nor undirected
NoKind    == ""

-----------------------------------------------------------------------------
(* Sequence helpers *)
Has(s, x)       == \E i \in DOMAIN s : s[i] = x
Without(s, x)   == SelectSeq(s, LAMBDA y : y # x)
AppendNew(s, x) == IF Has(s, x) THEN s ELSE Append(s, x)
Count(s, x)     == Cardinality({i \in DOMAIN s : s[i] = x})
NoDupSeq(s)     == \A i, j \in DOMAIN s : s[i] = s[j] => i = j
FirstIdx(s, x)  == CHOOSE i \in DOMAIN s : s[i] = x /\ \A j \in 1..(i-1) : s[j] # x
RemFirst(s, x)  == IF Has(s, x)
                     THEN LET i == FirstIdx(s, x) IN SubSeq(s, 1, i-1) \o SubSeq(s, i+1, Len(s))
                     ELSE s
Dedup(s)        == FoldLeft(LAMBDA acc, x : AppendNew(acc, x), <<>>, s)
SetToSeqAsc(T)  == SetToSortSeq(T, LAMBDA a, b : a < b)
Rng(s)          == {s[i] : i \in DOMAIN s}

-----------------------------------------------------------------------------
(* The state record *)
EmptyState ==
  [ nl      |-> 0,                                   \* links created so far (slots 1..nl)
    kind    |-> [e \in Links |-> NoKind],
    ends    |-> [e \in Links |-> <<>>],              \* Link.vertices, in order (0 = None)
    vl      |-> [o \in Obj |-> <<>>],                \* Vertex.links, in order
    unis    |-> [o \in Obj |-> <<>>],                \* BaseObject.universes, in order (object numbers)
    members |-> [k \in UniIx |-> <<>>],              \* Universe.vertices, in order (object numbers)
    laws    |-> [k \in UniIx |-> 0],                 \* Universe.laws (law number, 0 = None)
    app     |-> [L \in Laws |-> 0],                  \* UniverseLaws.applies_to (object number, 0 = None)
    bv      |-> 0,                                   \* plain vertices 1..bv have been constructed
    bu      |-> 0,                                   \* universes 1..bu have been constructed
    bl      |-> [L \in Laws |-> FALSE] ]             \* law set L exists

(* All plain vertices exist (Vertex()), nu universes exist (Universe()),   *)
(* and the free-standing law sets exist (UniverseLaws()).                  *)
BaseState(nv, nu, freeLaws) ==
  [ EmptyState EXCEPT
      !.bv   = nv,
      !.bu   = nu,
      !.laws = [k \in UniIx |-> IF k <= nu THEN k ELSE 0],
      !.app  = [L \in Laws |-> IF L <= nu THEN UObj(L) ELSE 0],
      !.bl   = [L \in Laws |-> (L <= nu) \/ (freeLaws /\ L > NU)] ]

BornObj(S)   == (1..S.bv) \cup {UObj(k) : k \in 1..S.bu}
BornLinks(S) == 1..S.nl

TypeOK(S) ==
  /\ S.nl \in 0..NL /\ S.bv \in 0..NV /\ S.bu \in 0..NU
  /\ \A e \in Links : /\ (e > S.nl => S.kind[e] = NoKind /\ S.ends[e] = <<>>)
                      /\ (e <= S.nl => S.kind[e] \in TwoKinds \cup NaryKinds)
                      /\ \A i \in DOMAIN S.ends[e] : S.ends[e][i] \in BornObj(S) \cup {None}
  /\ \A o \in Obj : /\ \A i \in DOMAIN S.vl[o] : S.vl[o][i] \in BornLinks(S)
                    /\ \A i \in DOMAIN S.unis[o] : S.unis[o][i] \in {UObj(k) : k \in 1..S.bu}
                    /\ (o \notin BornObj(S) => S.vl[o] = <<>> /\ S.unis[o] = <<>>)
  /\ \A k \in UniIx : /\ \A i \in DOMAIN S.members[k] : S.members[k][i] \in BornObj(S)
                      /\ S.laws[k] \in {0} \cup {L \in Laws : S.bl[L]}
                      /\ (k > S.bu => S.members[k] = <<>> /\ S.laws[k] = 0)
  /\ \A L \in Laws : S.app[L] \in {0} \cup {UObj(k) : k \in 1..S.bu}

-----------------------------------------------------------------------------
(* The state invariants the properties name *)

\* C01: a link is in v.links iff v is in link.vertices; no vertex lists a link twice
LinkSym(S)    == \A o \in Obj, e \in Links : Has(S.vl[o], e) <=> Has(S.ends[e], o)
NoDupLinks(S) == \A o \in Obj : NoDupSeq(S.vl[o])

\* C02: o in u.vertices iff u in o.universes; neither list holds a duplicate
UniSym(S)       == \A o \in Obj, k \in UniIx : Has(S.members[k], o) <=> Has(S.unis[o], UObj(k))
NoDupMembers(S) == \A k \in UniIx : NoDupSeq(S.members[k])
NoDupUnis(S)    == \A o \in Obj : NoDupSeq(S.unis[o])

\* C19: u.laws is L exactly when L.applies_to is u
LawsSym(S) == \A k \in UniIx, L \in Laws : (S.laws[k] = L) <=> (S.app[L] = UObj(k))

StructInv(S) == /\ LinkSym(S) /\ NoDupLinks(S)
                /\ UniSym(S) /\ NoDupMembers(S) /\ NoDupUnis(S)
                /\ LawsSym(S)

-----------------------------------------------------------------------------
(* Outcomes *)
Ok(S, out)    == [st |-> S, err |-> FALSE, exc |-> "", out |-> out]
Raise(S, exc) == [st |-> S, err |-> TRUE,  exc |-> exc, out |-> <<>>]   \* exc = "" : any exception class

Attach(S, v, e) == IF v = None THEN S ELSE [S EXCEPT !.vl[v] = AppendNew(@, e)]

\* TwoEndedLink.other(x): identity test against v1 then v2; None otherwise
Other(S, e, x) == IF S.ends[e][1] = x THEN S.ends[e][2]
                  ELSE IF S.ends[e][2] = x THEN S.ends[e][1] ELSE None

\* queries, dontdup and unlink walk x.links and call other(), which looks at the
\* first two entries: they are specified on vertices all of whose links are
\* two-ended and have at least two entries (a lost-end edge raises IndexError)
QDom(S, x) == \A i \in DOMAIN S.vl[x] : /\ S.kind[S.vl[x][i]] \in TwoKinds
                                         /\ Len(S.ends[S.vl[x][i]]) >= 2

-----------------------------------------------------------------------------
(* Link construction *)

\* K(x, y) for a two-ended class K: appended to the links of both ends
Post_New(S, k, x, y) ==
  LET e  == S.nl + 1
      S1 == [S EXCEPT !.nl = e, !.kind[e] = k, !.ends[e] = <<x, y>>]
  IN  {Ok(Attach(Attach(S1, x, e), y, e), <<e>>)}

\* K(vertices=vs) for an n-ary Link subclass K
Post_LNew(S, k, vs) ==
  LET e  == S.nl + 1
      S1 == [S EXCEPT !.nl = e, !.kind[e] = k, !.ends[e] = vs]
  IN  {Ok(FoldLeft(LAMBDA acc, v : Attach(acc, v, e), S1, vs), <<e>>)}

-----------------------------------------------------------------------------
(* End assignment  e.v1 = n (i = 1) /  e.v2 = n (i = 2) *)

DetachIfGone(S, old, e) ==
  IF old # None /\ ~Has(S.ends[e], old) THEN [S EXCEPT !.vl[old] = Without(@, e)] ELSE S

\* entry i, and only entry i, becomes n; the old vertex is detached only if it
\* is no longer an end; n lists the link (at the end) if it did not already
SetVCore(S, e, i, n) ==
  LET old == S.ends[e][i]
      S1  == [S EXCEPT !.ends[e][i] = n]
  IN  Attach(DetachIfGone(S1, old, e), n, e)

MoveToEnd(S, v, e) == [S EXCEPT !.vl[v] = Append(Without(@, e), e)]

\* keep the first two entries of e; vertices that no longer occur are detached
TruncTwo(S, e) ==
  LET keep == SubSeq(S.ends[e], 1, 2)
      gone == {v \in Rng(S.ends[e]) \ {None} : ~Has(keep, v)}
  IN  [S EXCEPT !.ends[e] = keep,
                !.vl = [o \in Obj |-> IF o \in gone THEN Without(@[o], e) ELSE @[o]]]

Post_SetV(S, e, i, n) ==
  IF Len(S.ends[e]) < 2 THEN {Raise(S, "")}             \* an edge that lost an end: raises, unchanged
  ELSE LET old  == S.ends[e][i]
           core == SetVCore(S, e, i, n)
       IN IF Len(S.ends[e]) = 2
            THEN IF n = old /\ n # None
                   \* re-assigning the same vertex: the statement is silent on
                   \* whether the link keeps its place in that vertex's links
                   THEN {Ok(S, <<>>), Ok(MoveToEnd(S, n, e), <<>>)}
                   ELSE {Ok(core, <<>>)}
            \* a two-ended link given extra entries through Link.add_vertex: outside
            \* C03's vocabulary; replace-in-place and truncate-and-detach both accepted
            ELSE {Ok(core, <<>>), Ok(TruncTwo(core, e), <<>>)}

-----------------------------------------------------------------------------
(* Vertex.add_to_link / remove_from_link, Link.add_vertex / unlink_from *)

Post_VAdd(S, v, e) ==
  IF Has(S.vl[v], e) THEN {Ok(S, <<>>)}
  ELSE {Ok([S EXCEPT !.vl[v] = Append(@, e), !.ends[e] = AppendNew(@, v)], <<>>)}

Post_VRem(S, v, e) ==
  IF ~Has(S.vl[v], e) THEN {Ok(S, <<>>)}
  ELSE {Ok([S EXCEPT !.vl[v] = Without(@, e), !.ends[e] = Without(@, v)], <<>>)}

Post_LAdd(S, e, v) == {Ok(Attach([S EXCEPT !.ends[e] = Append(@, v)], v, e), <<>>)}

Post_LUnl(S, e, v) ==
  IF ~Has(S.ends[e], v) THEN {Ok(S, <<>>)}
  ELSE IF v = None
    \* unlinking `None': one or all placeholders may go (statement silent)
    THEN {Ok([S EXCEPT !.ends[e] = RemFirst(@, None)], <<>>),
          Ok([S EXCEPT !.ends[e] = Without(@, None)], <<>>)}
    ELSE {Ok([S EXCEPT !.ends[e] = Without(@, v), !.vl[v] = Without(@, e)], <<>>)}

-----------------------------------------------------------------------------
(* explicit.link_from_to / link_directed / link_undirected / unlink *)

Post_Link(S, k, x, y, dontdup) ==
  LET dups == {i \in DOMAIN S.vl[x] : Other(S, S.vl[x][i], x) = y}
  IN IF dontdup /\ dups # {}
       THEN {Ok(S, <<S.vl[x][Min(dups)]>>)}      \* the first joining link, nothing created
       ELSE Post_New(S, k, x, y)

Joining(S, x, y) == {e \in Rng(S.vl[x]) : Other(S, e, x) = y}

Post_Unlink(S, x, y, destroy) ==
  LET J  == Joining(S, x, y)
      S1 == [S EXCEPT
               !.ends = [e \in Links |-> IF e \in J THEN Without(Without(@[e], x), y) ELSE @[e]],
               !.vl   = [o \in Obj |-> IF o \in {x, y} THEN SelectSeq(@[o], LAMBDA e : e \notin J)
                                       ELSE @[o]]]
  \* destroy=True returns None (<<>>); destroy=False returns A SET - encoded as <<0>> followed by its members - even
  \* when nothing joined x and y (an empty set is not None: "returning exactly those when destroy=False")
  IN {Ok(S1, IF destroy THEN <<>> ELSE <<0>> \o SetToSeqAsc(J))}

-----------------------------------------------------------------------------
(* Universe membership *)

Post_UAdd(S, k, o) ==       \* Universe k .add_vertex(o)
  IF Has(S.members[k], o) /\ Has(S.unis[o], UObj(k)) THEN {Ok(S, <<>>)}
  ELSE {Ok([S EXCEPT !.members[k] = AppendNew(@, o), !.unis[o] = AppendNew(@, UObj(k))], <<>>)}

Post_OAdd(S, o, k) ==       \* o.add_to_universe(Universe k)
  Post_UAdd(S, k, o)

Post_URem(S, k, o) ==       \* Universe k .remove_vertex(o)
  IF ~Has(S.members[k], o) THEN {Raise(S, "")}
  ELSE {Ok([S EXCEPT !.members[k] = Without(@, o), !.unis[o] = Without(@, UObj(k))], <<>>)}

Post_ORem(S, o, k) ==       \* o.remove_from_universe(Universe k)
  IF ~Has(S.unis[o], UObj(k)) THEN {Raise(S, "")}
  ELSE {Ok([S EXCEPT !.members[k] = Without(@, o), !.unis[o] = Without(@, UObj(k))], <<>>)}

-----------------------------------------------------------------------------
(* Constructors *)

\* Vertex(links=ls, universes=us): us is a sequence of universe OBJECT numbers
Post_VNew(S, ls, us) ==
  LET v  == S.bv + 1
      du == Dedup(us)
      S1 == [S EXCEPT !.bv = v, !.unis[v] = du]
      S2 == FoldLeft(LAMBDA acc, e :
                       IF Has(acc.vl[v], e) THEN acc
                       ELSE [acc EXCEPT !.vl[v] = Append(@, e), !.ends[e] = AppendNew(@, v)],
                     S1, ls)
      S3 == FoldLeft(LAMBDA acc, u : [acc EXCEPT !.members[UIx(u)] = AppendNew(@, v)], S2, du)
  IN {Ok(S3, <<v>>)}

\* detach law set L from whatever universe holds it
DropLawHolder(S, L) ==
  IF L # 0 /\ S.app[L] # 0 THEN [S EXCEPT !.laws[UIx(S.app[L])] = 0] ELSE S
\* detach universe k's current law set
DropLawsOf(S, k) ==
  IF S.laws[k] # 0 THEN [S EXCEPT !.app[S.laws[k]] = 0] ELSE S

\* Universe(vertices=vs, laws=L)   (L = 0: no laws given, a default law set is created)
Post_UNew(S, vs, L) ==
  LET k  == S.bu + 1
      u  == UObj(k)
      dv == Dedup(vs)
      S0 == [S EXCEPT !.bu = k]
      S1 == IF L = 0
              THEN [S0 EXCEPT !.laws[k] = k, !.app[k] = u, !.bl[k] = TRUE]
              ELSE LET T == DropLawHolder(S0, L) IN [T EXCEPT !.laws[k] = L, !.app[L] = u]
      S2 == [S1 EXCEPT !.members[k] = dv]
      S3 == FoldLeft(LAMBDA acc, o : [acc EXCEPT !.unis[o] = AppendNew(@, u)], S2, dv)
  IN {Ok(S3, <<u>>)}

-----------------------------------------------------------------------------
(* Universe.laws = L   and   UniverseLaws.applies_to = u *)

Post_SetLaws(S, k, L) ==
  IF S.laws[k] = L THEN {Ok(S, <<>>)}
  ELSE LET S1 == DropLawsOf(S, k)
           S2 == DropLawHolder(S1, L)
           S3 == [S2 EXCEPT !.laws[k] = L]
       IN {Ok(IF L = 0 THEN S3 ELSE [S3 EXCEPT !.app[L] = UObj(k)], <<>>)}

Post_SetApp(S, L, uo) ==     \* uo: universe object number, 0 for None
  IF S.app[L] = uo THEN {Ok(S, <<>>)}
  ELSE LET S1 == DropLawHolder(S, L)
           S2 == IF uo = 0 THEN S1 ELSE DropLawsOf(S1, UIx(uo))
           S3 == [S2 EXCEPT !.app[L] = uo]
       IN {Ok(IF uo = 0 THEN S3 ELSE [S3 EXCEPT !.laws[UIx(uo)] = L], <<>>)}

-----------------------------------------------------------------------------
(* Dispatcher: a call is a record [op, k, a, b]; op names the call, k is a  *)
(* link kind (or ""), a and b are integer sequences.                        *)

Call(op, k, a, b) == [op |-> op, k |-> k, a |-> a, b |-> b]

B(x) == x # 0     \* integer-coded boolean argument

Post(S, c) ==
  CASE c.op = "new"     -> Post_New(S, c.k, c.a[1], c.a[2])
    [] c.op = "lnew"    -> Post_LNew(S, c.k, c.a)
    [] c.op = "setv"    -> Post_SetV(S, c.a[1], c.a[2], c.a[3])
    [] c.op = "vadd"    -> Post_VAdd(S, c.a[1], c.a[2])
    [] c.op = "vrem"    -> Post_VRem(S, c.a[1], c.a[2])
    [] c.op = "ladd"    -> Post_LAdd(S, c.a[1], c.a[2])
    [] c.op = "lunl"    -> Post_LUnl(S, c.a[1], c.a[2])
    [] c.op = "link"    -> Post_Link(S, c.k, c.a[1], c.a[2], B(c.a[3]))
    [] c.op = "linkd"   -> Post_Link(S, "D", c.a[1], c.a[2], B(c.a[3]))
    [] c.op = "linku"   -> Post_Link(S, "U", c.a[1], c.a[2], B(c.a[3]))
    [] c.op = "unlink"  -> Post_Unlink(S, c.a[1], c.a[2], B(c.a[3]))
    [] c.op = "uadd"    -> Post_UAdd(S, c.a[1], c.a[2])
    [] c.op = "oadd"    -> Post_OAdd(S, c.a[1], c.a[2])
    [] c.op = "urem"    -> Post_URem(S, c.a[1], c.a[2])
    [] c.op = "orem"    -> Post_ORem(S, c.a[1], c.a[2])
    [] c.op = "vnew"    -> Post_VNew(S, c.a, c.b)
    [] c.op = "unew"    -> Post_UNew(S, c.a, c.b[1])
    [] c.op = "setlaws" -> Post_SetLaws(S, c.a[1], c.a[2])
    [] c.op = "setapp"  -> Post_SetApp(S, c.a[1], c.a[2])

LinkOps == {"new", "lnew", "setv", "vadd", "vrem", "ladd", "lunl", "link", "linkd", "linku", "unlink"}
UniOps  == {"uadd", "oadd", "urem", "orem"}
NewOps  == {"vnew", "unew"}
LawOps  == {"setlaws", "setapp"}

(* The domain in which the properties fix the outcome of a call.  Outside  *)
(* it (e.g. dontdup / unlink at a vertex holding an edge that lost an end, *)
(* where other() raises IndexError) only the state invariants are judged.  *)
InDomain(S, c) ==
  CASE c.op \in {"link", "linkd", "linku"} -> (B(c.a[3]) => QDom(S, c.a[1]))
    [] c.op = "unlink" -> QDom(S, c.a[1]) /\ QDom(S, c.a[2])
    [] OTHER -> TRUE
=============================================================================
