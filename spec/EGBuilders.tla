------------------------------ MODULE EGBuilders ------------------------------
(***************************************************************************)
(* adjlist.load_adj_dict, adjmatrix.load_adj_matrix and randgraph as       *)
(* outcome-set operators over EGStructure states (folds of the structural  *)
(* operators), the read-back lemma, and the random generator of randgraph  *)
(* as NON-DETERMINISM: TLC enumerates every outcome of randint / sample.   *)
(*                                                                         *)
(* An adjacency dict is a sequence of <<key, v1, .., vn>> rows (dict order, *)
(* keys distinct).  A matrix call is a side array and a sequence of rows    *)
(* of 0/1 cells (1 = truthy).                                               *)
(***************************************************************************)
EXTENDS EGQueries

\* One state from an outcome set known to be a singleton
TheState(P) == (CHOOSE o \in P : TRUE).st

\* ---------------------------------------------------------------------------
\* load_adj_dict(adj, linktype=k): new universe; per row: key joins, then per
\* value one new link key -> value (in order) and the value joins
LoadRow(T, k, u, row) ==
  LET key == row[1]
      T0  == TheState(Post_OAdd(T, key, u))
      step(acc, v2) == TheState(Post_OAdd(TheState(Post_New(acc, k, key, v2)), v2, u))
  IN FoldLeft(step, T0, Tail(row))

Post_LoadAdjDict(S, adj, k) ==
  LET T0 == TheState(Post_UNew(S, <<>>, 0))
      u  == S.bu + 1
      T1 == FoldLeft(LAMBDA acc, row : LoadRow(acc, k, u, row), T0, adj)
  IN {Ok(T1, <<UObj(u)>>)}

\* ---------------------------------------------------------------------------
\* load_adj_matrix(matrix, side, linktype=k): shape validated first
SquareOK(side, rows) == Len(rows) = Len(side) /\ \A i \in DOMAIN rows : Len(rows[i]) = Len(side)

Cells(rows) == \* row-major sequence of <<i, j>> of truthy cells
  LET n == Len(rows)
      idx == [p \in 1..(n * n) |-> <<((p - 1) \div n) + 1, ((p - 1) % n) + 1>>]
  IN SelectSeq(idx, LAMBDA ij : rows[ij[1]][ij[2]] = 1)

Post_LoadAdjMatrix(S, side, rows, k) ==
  IF ~SquareOK(side, rows) THEN {Raise(S, "ValueError")}
  ELSE LET T0 == TheState(Post_UNew(S, <<>>, 0))
           u  == S.bu + 1
           T1 == FoldLeft(LAMBDA acc, v : TheState(Post_OAdd(acc, v, u)), T0, side)
           T2 == FoldLeft(LAMBDA acc, ij : TheState(Post_New(acc, k, side[ij[1]], side[ij[2]])), T1, Cells(rows))
       IN {Ok(T2, <<UObj(u)>>)}

\* ---------------------------------------------------------------------------
\* Read-back lemmas (C11): on the links the builder created, neighbors() and
\* find_links reproduce the input
NewLinks(S, T) == (S.nl + 1)..T.nl
OnlyNew(S, T) == [t |-> "sel", L |-> SetToSeqAsc(NewLinks(S, T)), V |-> <<>>]

RowOf(adj, x) == IF \E i \in DOMAIN adj : adj[i][1] = x
                   THEN Tail(adj[CHOOSE i \in DOMAIN adj : adj[i][1] = x]) ELSE <<>>
Mentions(adj) == UNION {Rng(adj[i]) : i \in DOMAIN adj}

ReadBackDict(S, adj, k) ==
  LET T == TheState(Post_LoadAdjDict(S, adj, k))
      f == OnlyNew(S, T)
  IN /\ Rng(T.members[S.bu + 1]) = Mentions(adj)
     /\ NoDupSeq(T.members[S.bu + 1])
     /\ \A x \in Mentions(adj), y \in Mentions(adj) :
          LET want == Count(RowOf(adj, x), y)
              back == Count(RowOf(adj, y), x)
          IN IF k \in DirKinds
               THEN /\ Count(NbList(T, x, FWD, UNK_INCL, f), y) = want
                    /\ Len(FindLinks(T, x, y, TRUE, UNK_INCL, f).out) = want
               ELSE \* undirected / other kinds: symmetric closure (a self entry counts once)
                    Count(NbList(T, x, ANY, UNK_INCL, f), y) = (IF x = y THEN want ELSE want + back)
     /\ \A e \in 1..S.nl : T.ends[e] = S.ends[e] /\ T.kind[e] = S.kind[e]
     /\ \A o \in Obj : IsPrefix(S.vl[o], T.vl[o]) /\ IsPrefix(S.unis[o], T.unis[o])

ReadBackMatrix(S, side, rows, k) ==
  SquareOK(side, rows) =>
    LET T == TheState(Post_LoadAdjMatrix(S, side, rows, k))
        f == OnlyNew(S, T)
    IN /\ T.members[S.bu + 1] = Dedup(side)
       /\ T.nl - S.nl = Len(Cells(rows))
       /\ (k \in DirKinds /\ NoDupSeq(side)) =>
            \A i, j \in DOMAIN side :
               Count(NbList(T, side[i], FWD, UNK_INCL, f), side[j]) = rows[i][j]
       /\ \A e \in 1..S.nl : T.ends[e] = S.ends[e]

\* ---------------------------------------------------------------------------
\* randgraph(count, edge=k, connectivity=p/q, ensurelink): the RNG is a choice.
\* K(i, r): number of targets drawn for vertex i (0-based) when randint gave r
\* Formula = "clamped" (the repaired code: never more targets than vertices) or
\* "today" (negative control: the unrepaired formula, which TLC must refute)
SampleKF(formula, count, r, p, q, ensure) ==
  LET base == (r * p) \div q
      k    == IF ensure /\ base < 1 THEN 1 ELSE base
  IN IF formula = "clamped" /\ k > count THEN count ELSE k
SampleK(count, r, p, q, ensure) == SampleKF("clamped", count, r, p, q, ensure)

RandMax(i) == IF i < 1 THEN 1 ELSE i        \* randint(1, max(1, i))

\* C20 "returns without raising": for EVERY generator outcome the sample size
\* fits the population (random.sample raises ValueError otherwise)
SampleSizeOK(formula, count, p, q, ensure) ==
  \A i \in 0..(count - 1) : \A r \in 1..RandMax(i) : SampleKF(formula, count, r, p, q, ensure) <= count

\* all arrangements of n distinct elements of T
Arrangements(T, n) == {s \in [1..n -> T] : \A a, b \in 1..n : s[a] = s[b] => a = b}

\* the adjacency dicts randgraph can hand to load_adj_dict
RECURSIVE RandAdjs(_, _, _, _, _)
RandAdjs(i, count, p, q, ensure) ==
  IF i = count THEN {<<>>}
  ELSE LET rows == UNION {{<<i + 1>> \o s : s \in Arrangements(1..count, SampleK(count, r, p, q, ensure))}
                          : r \in 1..RandMax(i)}
       IN {<<row>> \o rest : row \in rows, rest \in RandAdjs(i + 1, count, p, q, ensure)}

\* what C20 demands of the result T (universe index ku) built from a state with `count' fresh vertices
RandGraphPost(T, ku, count, k, ensure, firstLink) ==
  /\ Len(T.members[ku]) = count
  /\ Rng(T.members[ku]) = 1..count
  /\ \A e \in firstLink..T.nl :
        /\ T.kind[e] = k
        /\ Len(T.ends[e]) = 2 /\ T.ends[e][1] \in 1..count /\ T.ends[e][2] \in 1..count
  /\ ensure => \A v \in 1..count : \E e \in firstLink..T.nl : T.ends[e][1] = v

\* ---------------------------------------------------------------------------
\* Call encoding: "loaddict": a = rows flattened as key, n, v1..vn ;
\* "loadmat": a = side array, b = rows flattened as len, c1..clen
RECURSIVE DecodeAdj(_)
DecodeAdj(a) == IF a = <<>> THEN <<>>
                ELSE LET n == a[2] IN <<<<a[1]>> \o SubSeq(a, 3, 2 + n)>> \o DecodeAdj(SubSeq(a, 3 + n, Len(a)))
RECURSIVE DecodeRows(_)
DecodeRows(b) == IF b = <<>> THEN <<>>
                 ELSE LET n == b[1] IN <<SubSeq(b, 2, 1 + n)>> \o DecodeRows(SubSeq(b, 2 + n, Len(b)))
EncodeAdj(adj)   == FoldLeft(LAMBDA acc, row : acc \o <<row[1], Len(row) - 1>> \o Tail(row), <<>>, adj)
EncodeRows(rows) == FoldLeft(LAMBDA acc, row : acc \o <<Len(row)>> \o row, <<>>, rows)

BPost(S, c) ==
  CASE c.op = "loaddict" -> Post_LoadAdjDict(S, DecodeAdj(c.a), c.k)
    [] c.op = "loadmat"  -> Post_LoadAdjMatrix(S, c.a, DecodeRows(c.b), c.k)
    [] OTHER -> Post(S, c)
=============================================================================
