-------------------------------- MODULE JudgeRO --------------------------------
(***************************************************************************)
(* E3 for C12 / C13.  A record is one experiment on real objects:          *)
(*   pre, post : snapshots [S, attrs] taken around the experiment; S is    *)
(*               the structural projection (EGStructure), attrs[o] the     *)
(*               sorted <<name, value digest>> pairs of vars(o) of every   *)
(*               vertex, link and universe (the neighbour memo excluded)   *)
(*   clean, again : the answer of the operation in a clean run and when    *)
(*               repeated after the experiment (normalised by the executor)*)
(* The specification (EGReadOnly: every such experiment is a stutter on    *)
(* the observable graph) demands post = pre and again = clean.             *)
(***************************************************************************)
EXTENDS Naturals, Sequences, FiniteSets, TLC, Json, IOUtils, SequencesExt

Recs == JsonDeserialize(IOEnv.EG_RECORDS)
VARIABLE i
Init == i \in 1..Len(Recs)
Next == UNCHANGED i
Spec == Init /\ [][Next]_i

Tag(b, name) == IF b THEN {} ELSE {name}

Fails(r) ==
       Tag(r.post.S = r.pre.S, "GraphUnchanged")
  \cup Tag(r.post.attrs = r.pre.attrs, "AttributesUnchanged")
  \cup Tag(r.again = r.clean, "LaterAnswersUnchanged")

Changed(r) == {o \in DOMAIN r.pre.attrs : r.pre.attrs[o] # r.post.attrs[o]}

Judged == LET r == Recs[i] f == Fails(r)
          IN f = {} \/ PrintT(ToJson([id |-> r.id, fail |-> SetToSeq(f),
                                      exp |-> [objects_with_changed_attributes |-> SetToSeq(Changed(r))]]))
=============================================================================
