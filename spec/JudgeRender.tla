----------------------------- MODULE JudgeRender -----------------------------
(***************************************************************************)
(* E3 for the renderers (answer mode).  A record is a real graph state S,  *)
(* the ordered members M of the universe rendered, and the renderer's real *)
(* output parsed back into abstract form by the executor:                  *)
(*  kind = "plain": sorted, rank, rank0, res = [err, none, wellformed,     *)
(*                  lines = <<[head, nbs]>>]                               *)
(*  kind = "puml" : vcls, opts, res = [err, none, framed, decls, rels]     *)
(*  kind = "pyvis": labels, res = [err, nodes, edges]                      *)
(***************************************************************************)
EXTENDS EGRender, Json, IOUtils, TLCExt

Recs == JsonDeserialize(IOEnv.EG_RECORDS)
VARIABLE i
Init == i \in 1..Len(Recs)
Next == UNCHANGED i
Spec == Init /\ [][Next]_i

Tag(b, name) == IF b THEN {} ELSE {name}

FailPlain(r) ==
  IF r.M = <<>> THEN Tag(r.res.err = "" /\ r.res.none, "EmptyUniverseYieldsNone")
  ELSE IF PlainRaises(r.S, r.M) THEN Tag(r.res.err = "NotImplementedError", "UnknownLinkRaises")
  ELSE IF r.res.err # "" THEN {"Raised"}
  ELSE IF r.res.none THEN {"NoneForNonEmptyUniverse"}
  ELSE Tag(r.res.wellformed, "WellFormedLines")
       \cup Tag(r.res.lines = PlainLines(r.S, r.M, r.sorted, r.rank, r.rank0), "LinesEqualSpec")

FailPuml(r) ==
  IF r.M = <<>> THEN Tag(r.res.err = "" /\ r.res.none, "EmptyUniverseYieldsNone")
  ELSE IF ~PumlDomain(r.S, r.M, r.vcls, r.opts) THEN {}
  ELSE IF r.res.err # "" THEN {"Raised"}
  ELSE IF r.res.none THEN {"NoneForNonEmptyUniverse"}
  ELSE Tag(r.res.framed, "FramedByStartEnd")
       \cup Tag(SeqToBag(r.res.decls) = PumlDecls(r.S, r.M, r.vcls, r.opts), "OneDeclarationPerMember")
       \cup Tag(SeqToBag(SelectSeq(r.res.rels, LAMBDA x : x.a \in Rng(r.M) /\ x.b \in Rng(r.M)))
                  = PumlRelBag(r.S, r.M, r.opts), "OneOrientedRelationPerInternalLink")
       \cup Tag(\A j \in DOMAIN r.res.rels : RelExists(r.S, r.M, r.opts, r.res.rels[j]), "NoRelationWithoutLink")

FailPyvis(r) ==
  IF r.res.err # "" THEN {"Raised"}
  ELSE Tag(PyvisOK(r.S, r.M, r.labels, r.res.nodes, r.res.edges), "PyvisOK")

Fails(r) == CASE r.kind = "plain" -> FailPlain(r)
              [] r.kind = "puml" -> FailPuml(r)
              [] r.kind = "pyvis" -> FailPyvis(r)

Expected(r) == CASE r.kind = "plain" ->
                      IF r.M # <<>> /\ ~PlainRaises(r.S, r.M)
                        THEN [lines |-> PlainLines(r.S, r.M, r.sorted, r.rank, r.rank0)] ELSE [lines |-> <<>>]
                 [] r.kind = "puml" ->
                      IF r.M # <<>> /\ PumlDomain(r.S, r.M, r.vcls, r.opts)
                        THEN [rels |-> BagToSet(PumlRelBag(r.S, r.M, r.opts))] ELSE [rels |-> {}]
                 [] OTHER -> [none |-> TRUE]

Judged == LET r == Recs[i] f == Fails(r)
          IN f = {} \/ PrintT(ToJson([id |-> r.id, fail |-> SetToSeq(f), exp |-> Expected(r)]))
=============================================================================
