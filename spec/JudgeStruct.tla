----------------------------- MODULE JudgeStruct -----------------------------
(***************************************************************************)
(* E3: judges observations of the REAL implementation against EGStructure. *)
(*                                                                         *)
(* Input: a JSON array of records {id, pre, c, res, post} written by the   *)
(* executor; pre/post are projections of the real objects through the      *)
(* public accessors, c is the call, res = [err |-> exception class or "",  *)
(* out |-> integers].  One TLC initial state per record.  The verdict is   *)
(* total: a failing record prints one JSON line naming the record and the  *)
(* failing clauses and judging goes on.                                    *)
(*                                                                         *)
(* Modes (constant Prop):                                                  *)
(*   "C01" adopt + invariant : LinkSym, NoDupLinks on the real post state  *)
(*   "C02" adopt + invariant : UniSym, NoDupMembers, NoDupUnis; plus the   *)
(*         two action clauses the statement spells out (insertion order,   *)
(*         removing a non-member raises and changes nothing)               *)
(*   "C03" follow : (post, res) must be one of the outcomes Post(pre, c)   *)
(*   "C19" adopt + invariant : LawsSym; every laws assignment succeeds     *)
(*   "C09" adopt: the real post-state of every unlink() joins the pair by   *)
(*         nothing and every other pair by what joined it before           *)
(***************************************************************************)
EXTENDS EGStructure, Json, IOUtils, TLCExt

CONSTANT Prop

Recs == JsonDeserialize(IOEnv.EG_RECORDS)

VARIABLE i
Init == i \in 1..Len(Recs)
Next == UNCHANGED i
Spec == Init /\ [][Next]_i

Raised(r) == r.res.err # ""

Matches(o, r) ==
  /\ o.st = r.post
  /\ o.err = Raised(r)
  /\ (o.exc = "" \/ o.exc = r.res.err)
  /\ (~o.err => o.out = r.res.out)

Tag(b, name) == IF b THEN {} ELSE {name}

IsAppendOne(s, t) == Len(t) = Len(s) + 1 /\ SubSeq(t, 1, Len(s)) = s
IsDeleteOne(s, t) == \E j \in DOMAIN s : t = SubSeq(s, 1, j-1) \o SubSeq(s, j+1, Len(s))

FailC01(r) == Tag(LinkSym(r.post), "LinkSym") \cup Tag(NoDupLinks(r.post), "NoDupLinks")

NonMemberRemoval(r) ==
  \/ r.c.op = "urem" /\ ~Has(r.pre.members[r.c.a[1]], r.c.a[2])
  \/ r.c.op = "orem" /\ ~Has(r.pre.unis[r.c.a[1]], UObj(r.c.a[2]))

FailC02(r) ==
       Tag(UniSym(r.post), "UniSym")
  \cup Tag(NoDupMembers(r.post), "NoDupMembers")
  \cup Tag(NoDupUnis(r.post), "NoDupUnis")
  \cup Tag(\A k \in 1..r.pre.bu : \/ r.post.members[k] = r.pre.members[k]
                                  \/ IsAppendOne(r.pre.members[k], r.post.members[k])
                                  \/ IsDeleteOne(r.pre.members[k], r.post.members[k]),
           "InsertionOrder")
  \cup Tag(NonMemberRemoval(r) => (Raised(r) /\ r.post = r.pre), "RemoveNonMemberRaisesAtomically")
  \cup Tag((r.c.op \in UniOps /\ ~NonMemberRemoval(r)) => ~Raised(r), "MembershipCallSucceeds")

\* Follow is judged only where the specification speaks: from a pre-state
\* that satisfies the structural invariants, inside the call's domain
Judgeable(r) == StructInv(r.pre) /\ InDomain(r.pre, r.c)

FailC03(r) ==
  IF ~Judgeable(r) THEN {}
  ELSE Tag(\E o \in Post(r.pre, r.c) : Matches(o, r), "Follow")

FailC19(r) ==
       Tag(LawsSym(r.post), "LawsSym")
  \cup Tag((r.c.op \in LawOps \cup {"unew"}) => ~Raised(r), "AssignmentSucceeds")

\* C10: pre = projection of the original objects, post = projection of the un-pickled copy
\* (both extended with the per-object decoration: class, uid, attributes, sharing pattern)
FailC10(r) ==
       Tag(r.res.err = "", "RoundTripSucceeds")
  \cup (IF r.res.err # "" THEN {} ELSE
          Tag(r.post = r.pre, "CopyIsomorphic") \cup Tag(StructInv(r.post), "CopyWellFormed"))

\* C09, last clause: after unlink(a, b) nothing joins a and b any more (so find_links(a, b, ..) is empty for every
\* setting), while every other pair is joined by exactly the links that joined it before
QDomAll(S) == \A o \in BornObj(S) : QDom(S, o)
FailC09(r) ==
  IF r.c.op # "unlink" \/ Raised(r) \/ ~Judgeable(r) \/ ~QDomAll(r.pre) THEN {}
  ELSE LET a == r.c.a[1] b == r.c.a[2] IN
       IF ~QDomAll(r.post) THEN {"UnlinkLeavesHalfAttachedLinks"}
       ELSE Tag(Joining(r.post, a, b) = {} /\ Joining(r.post, b, a) = {}, "UnlinkEmptiesThePair")
            \cup Tag(\A x, y \in BornObj(r.pre) : ({x, y} # {a, b}) => Joining(r.post, x, y) = Joining(r.pre, x, y),
                     "OtherPairsStillJoined")

Fails(r) == CASE Prop = "C01" -> FailC01(r)
              [] Prop = "C02" -> FailC02(r)
              [] Prop = "C03" -> FailC03(r)
              [] Prop = "C19" -> FailC19(r)
              [] Prop = "C10" -> FailC10(r)
              [] Prop = "C09" -> FailC09(r)

\* what the specification expected, for the replay file (first allowed outcome)
Expected(r) == IF Prop = "C03" /\ Judgeable(r)
                 THEN LET o == CHOOSE o \in Post(r.pre, r.c) : TRUE
                      IN [st |-> o.st, err |-> o.err, out |-> o.out, n |-> Cardinality(Post(r.pre, r.c))]
                 ELSE [n |-> 0]

Judged ==
  LET r == Recs[i]
      f == Fails(r)
  IN IF f = {}
       THEN IF Prop = "C03" /\ ~Judgeable(r)
              THEN PrintT(ToJson([id |-> r.id, skip |-> IF StructInv(r.pre) THEN "domain" ELSE "pre"]))
              ELSE TRUE
       ELSE PrintT(ToJson([id |-> r.id, fail |-> SetToSeq(f), exp |-> Expected(r)]))
=============================================================================
