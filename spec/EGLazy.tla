------------------------------- MODULE EGLazy -------------------------------
(***************************************************************************)
(* Beyond the listed properties: the GENERATOR traversals ibft,            *)
(* idft_recursive and idft_iterative as processes that are interleaved     *)
(* with the structural calls of MC_Struct.                                 *)
(*                                                                         *)
(* A generator is created (nothing runs), and every next() runs the loop   *)
(* of breadthfirst.py / depthfirst.py from the previous yield to the next  *)
(* one.  Between two next() calls any structural call may change the graph *)
(* or the universe the generator walks; what the generator then does is    *)
(* fixed by the local state it carries: the FIFO queue / the stack, the    *)
(* visited list, and the SNAPSHOT of neighbors(x) it is iterating over     *)
(* (neighbors() returns a list of its own; the membership test             *)
(* `w in uni.vertices' is evaluated afresh for every candidate).           *)
(*                                                                         *)
(* GenNext(S, G) is one next() as a function of the current graph and the  *)
(* local state: [g, out, err] with out = the vertex yielded (0 = the       *)
(* generator is exhausted: StopIteration) and err = the exception class.   *)
(*                                                                         *)
(* TLC checks, over every interleaving within the pool: no vertex is       *)
(* yielded twice; a yielded vertex belongs to the universe at that moment; *)
(* each next() visits a new vertex or ends the generator (so it ends after *)
(* at most |objects|+1 calls whatever the mutator does); an exhausted      *)
(* generator stays exhausted; a generator that ran undisturbed yielded     *)
(* exactly the list of EGQueries!Trav (the step machine refines the        *)
(* list-valued operators the properties C06 / C07 are judged with).        *)
(***************************************************************************)
EXTENDS MC_Struct, EGQueries

CONSTANTS HistLen,     \* > 0: behaviours of this length are printed (trace generation with -simulate)
          GenKinds,    \* subset of {"ibft", "idftr", "idfti"}
          GDirs,       \* directions offered (0 FORWARD, 1 ANY, 2 BACKWARD)
          GUnks,       \* unknown-link handling offered (0 skip, 1 neighbour, 2 error)
          HideSets,    \* sets of vertices an ff_result callback may hide ({} = no callback)
          ViaSet,      \* ff_via callbacks offered (filters of EGQueries; NoFilter = no callback)
          Pace,        \* BOOLEAN, for -simulate only: at most one structural call after the creation and between two next() calls
          MinLinks     \* for -simulate only: the generator is created once this many links exist (0 otherwise)

VARIABLES g,           \* the generator
          dirty,       \* a structural call happened while the generator was live
          res,         \* result of the latest next(): [out, err]
          hist

\* menus for the configurations (cfg: HideSets <- HNone ...)
HNone == {{}}
HSome == {{}, {1}, {1, 2}}
VNone == {NoFilter}
VSome == {NoFilter, [t |-> "sel", L |-> <<1>>, V |-> <<2>>], [t |-> "rej", L |-> <<>>, V |-> <<>>]}

lvars == <<S, last, g, dirty, res, hist>>
LView == <<S, g, dirty, res>>

NoGen == [st |-> "none", kind |-> "", u |-> 0, s |-> 0, d |-> 0, unk |-> 2, hide |-> {}, fv |-> NoFilter,
          vis |-> <<>>, q |-> <<>>, fr |-> <<>>, ex |-> 0, ys |-> <<>>, plan |-> <<>>,
          err |-> ""]        \* the exception that ended the generator, if one did (sticky)

Mem(T, u) == IF u = 0 THEN NoUni ELSE Rng(T.members[UIx(u)])
NbE(T, G, x) == NbErr(T, x, G.d, G.unk, G.fv)
NbL(T, G, x) == NbList(T, x, G.d, G.unk, G.fv)
Frame(v, pend, ev) == [v |-> v, pend |-> pend, ev |-> ev]

Stop(G)      == [g |-> [G EXCEPT !.st = "done"], out |-> 0, err |-> ""]
RaiseG(G, e) == [g |-> [G EXCEPT !.st = "done", !.err = e], out |-> 0, err |-> e]
Yield(G, w)  == [g |-> [G EXCEPT !.st = "live", !.ys = Append(@, w)], out |-> w, err |-> ""]

\* ---- ibft: FIFO queue, mark on enqueue; fr holds the vertex being expanded and the rest of its snapshot
RECURSIVE RunB(_, _)
RunB(T, G) ==
  IF G.fr = <<>>
    THEN IF G.q = <<>> THEN Stop(G)
         ELSE LET x == Head(G.q) IN
              IF NbE(T, G, x) THEN RaiseG([G EXCEPT !.q = Tail(@)], "NotImplementedError")
              ELSE RunB(T, [G EXCEPT !.q = Tail(@), !.fr = <<Frame(x, NbL(T, G, x), TRUE)>>])
    ELSE LET f == G.fr[1] IN
         IF f.pend = <<>> THEN RunB(T, [G EXCEPT !.fr = <<>>])
         ELSE LET w  == Head(f.pend)
                  G1 == [G EXCEPT !.fr[1].pend = Tail(@)]
              IN IF ~InU(Mem(T, G.u), w) \/ Has(G.vis, w) THEN RunB(T, G1)
                 ELSE LET G2 == [G1 EXCEPT !.vis = Append(@, w), !.q = Append(@, w)]
                      IN IF w \in G.hide THEN RunB(T, G2) ELSE Yield(G2, w)

\* ---- idft_recursive: one frame per nested generator; neighbors(v) is evaluated when the frame is RESUMED
RECURSIVE RunR(_, _)
RunR(T, G) ==
  IF G.fr = <<>> THEN Stop(G)
  ELSE LET n == Len(G.fr)
           f == G.fr[n]
       IN IF ~f.ev
            THEN IF NbE(T, G, f.v) THEN RaiseG(G, "NotImplementedError")
                 ELSE RunR(T, [G EXCEPT !.fr[n] = Frame(f.v, NbL(T, G, f.v), TRUE)])
          ELSE IF f.pend = <<>> THEN RunR(T, [G EXCEPT !.fr = Front(@)])
          ELSE LET w  == Head(f.pend)
                   G1 == [G EXCEPT !.fr[n].pend = Tail(@)]
               IN IF ~InU(Mem(T, G.u), w) \/ Has(G.vis, w) THEN RunR(T, G1)
                  ELSE LET G2 == [G1 EXCEPT !.vis = Append(@, w), !.fr = Append(@, Frame(w, <<>>, FALSE))]
                       IN IF w \in G.hide THEN RunR(T, G2) ELSE Yield(G2, w)

\* ---- idft_iterative: explicit stack (q), mark on pop, universe test on pop; ex = vertex whose neighbours
\*      are pushed when the generator is resumed after yielding it
RECURSIVE RunI(_, _)
RunI(T, G) ==
  IF G.ex # 0
    THEN IF NbE(T, G, G.ex) THEN RaiseG(G, "NotImplementedError")
         ELSE RunI(T, [G EXCEPT !.q = @ \o NbL(T, G, G.ex), !.ex = 0])
  ELSE IF G.q = <<>> THEN Stop(G)
  ELSE LET v  == Last(G.q)
           G1 == [G EXCEPT !.q = Front(@)]
       IN IF Has(G.vis, v) \/ ~InU(Mem(T, G.u), v) THEN RunI(T, G1)
          ELSE LET G2 == [G1 EXCEPT !.vis = Append(@, v), !.ex = v]
               IN IF v \in G.hide THEN RunI(T, G2) ELSE Yield(G2, v)

Run(T, G) == CASE G.kind = "ibft" -> RunB(T, G) [] G.kind = "idftr" -> RunR(T, G) [] G.kind = "idfti" -> RunI(T, G)

\* what an undisturbed run would yield from here (used for the refinement property and to mark divergence)
PlanOf(T, G) ==
  LET fr == IF G.hide = {} THEN NoFilter ELSE [t |-> "sel", L |-> <<>>, V |-> SetToSeqAsc(BornObj(T) \ G.hide)]
      which == CASE G.kind = "ibft" -> "bft" [] G.kind = "idftr" -> "dftr" [] G.kind = "idfti" -> "dfti"
  IN Trav(which, T, Mem(T, G.u), G.s, G.d, G.unk, G.fv, fr)

\* the first next(): the preflight checks of the function body, then the loop
First(T, G) ==
  LET empty  == G.u # 0 /\ T.members[UIx(G.u)] = <<>>
      absent == G.u # 0 /\ G.s \notin Mem(T, G.u)
      G0     == [G EXCEPT !.st = "live", !.plan = IF PlanOf(T, G).err THEN <<>> ELSE PlanOf(T, G).out]
  IN IF G.kind = "ibft"
       THEN IF empty THEN Stop(G)
            ELSE IF absent THEN RaiseG(G, "ValueError")
            ELSE LET G1 == [G0 EXCEPT !.vis = <<G.s>>, !.q = <<G.s>>]
                 IN IF G.s \in G.hide THEN RunB(T, G1) ELSE Yield(G1, G.s)
     ELSE IF empty \/ absent THEN RaiseG(G, "ValueError")
     ELSE IF G.kind = "idftr"
       THEN LET G1 == [G0 EXCEPT !.vis = <<G.s>>, !.fr = <<Frame(G.s, <<>>, FALSE)>>]
            IN IF G.s \in G.hide THEN RunR(T, G1) ELSE Yield(G1, G.s)
     ELSE RunI(T, [G0 EXCEPT !.q = <<G.s>>])

GenNext(T, G) == CASE G.st = "new"  -> First(T, G)
                   [] G.st = "live" -> Run(T, G)
                   [] G.st = "done" -> [g |-> G, out |-> 0, err |-> ""]

-----------------------------------------------------------------------------
NoRes == [out |-> 0, err |-> ""]
LInit == /\ Init /\ g = NoGen /\ dirty = FALSE /\ res = NoRes /\ hist = <<>>

Create(kind, u, s, d, unk, hide, fv) ==
  /\ g.st = "none" /\ S.nl >= MinLinks
  /\ g' = [NoGen EXCEPT !.st = "new", !.kind = kind, !.u = u, !.s = s, !.d = d, !.unk = unk, !.hide = hide, !.fv = fv]
  /\ last' = [c |-> [op |-> "gcreate", k |-> kind, a |-> <<u, s, d, unk>>, b |-> SetToSeqAsc(hide), fv |-> fv], err |-> FALSE, out |-> <<>>]
  /\ res' = NoRes
  /\ UNCHANGED <<S, dirty>>

GNext ==
  /\ g.st # "none"
  /\ LET r == GenNext(S, g)
     IN /\ g' = r.g
        /\ res' = [out |-> r.out, err |-> r.err]
        /\ last' = [c |-> Call("gnext", "", <<>>, <<>>), err |-> r.err # "", out |-> <<r.out>>]
  /\ UNCHANGED <<S, dirty>>

Mutate == /\ (Pace /\ g.st # "none") => last.c.op \in {"gnext", "gcreate"}
          /\ Next
          /\ dirty' = (dirty \/ g.st = "live")
          /\ res' = NoRes
          /\ UNCHANGED g

LStep == \/ Mutate
         \/ GNext
         \/ \E kind \in GenKinds, u \in {0} \cup BornUnis, s \in 1..S.bv, d \in GDirs, unk \in GUnks, hide \in HideSets, fv \in ViaSet :
               Create(kind, u, s, d, unk, hide, fv)
\* lz: this yield differs from what an eager evaluation at the first next() would have produced at this position
Lazy == /\ last'.c.op = "gnext" /\ res'.out # 0
        /\ LET k == Len(g'.ys) IN k > Len(g'.plan) \/ g'.plan[k] # res'.out
LNext == LStep /\ hist' = IF HistLen > 0
                            THEN Append(hist, [c |-> last'.c, t |-> S', r |-> res', lz |-> Lazy, dirty |-> dirty'])
                            ELSE hist
LSpec == LInit /\ [][LNext]_lvars

-----------------------------------------------------------------------------
\* invariants
NoDupYields  == NoDupSeq(g.ys)
YieldsListed == g.ys = SelectSeq(g.vis, LAMBDA w : w \notin g.hide)
LocalsVisited ==
  /\ NoDupSeq(g.vis)
  /\ g.kind = "ibft" => Rng(g.q) \subseteq Rng(g.vis) /\ NoDupSeq(g.q)
  /\ g.kind = "idftr" => /\ \A k \in DOMAIN g.fr : Has(g.vis, g.fr[k].v)
                         /\ \A j, k \in DOMAIN g.fr : g.fr[j].v = g.fr[k].v => j = k
  /\ g.kind = "idfti" => (g.ex # 0 => Has(g.vis, g.ex))
DoneIsEmpty == (g.st = "done" /\ g.err = "" /\ g.vis # <<>>) =>
                  CASE g.kind = "ibft" -> g.q = <<>> /\ g.fr = <<>>
                    [] g.kind = "idftr" -> g.fr = <<>>
                    [] g.kind = "idfti" -> g.q = <<>> /\ g.ex = 0
                    [] OTHER -> TRUE

\* action properties
IsNext == last'.c.op = "gnext" /\ g.st # "none"
YieldIsMemberNow == [][(IsNext /\ res'.out # 0) => InU(Mem(S, g.u), res'.out)]_lvars
Progress == [][IsNext => (Len(g'.vis) > Len(g.vis) \/ g'.st = "done")]_lvars
ExhaustedStays == [][g.st = "done" => (g' = g /\ (IsNext => res' = NoRes))]_lvars
MutationsLeaveLocals == [][last'.c.op \notin {"gnext", "gcreate"} => g' = g]_lvars
\* refinement of the list-valued operators: an undisturbed run yields exactly Trav, and raises iff Trav raises
Undisturbed ==
  [][(IsNext /\ g'.st = "done" /\ g.st # "done" /\ ~dirty /\ g'.vis # <<>>) =>
        LET p == PlanOf(S, g) IN IF p.err THEN res'.err = "NotImplementedError"
                                 ELSE res'.err = "" /\ g'.ys = p.out]_lvars
\* every vertex yielded after the start was, when it was discovered, a neighbour of an already visited vertex
FromSnapshot(G, x, w) == \E k \in DOMAIN G.fr : G.fr[k].v = x /\ Has(G.fr[k].pend, w)
DiscoveredByEdge ==
  [][(IsNext /\ res'.out # 0 /\ g.st = "live") =>
        \E x \in Rng(g'.vis) : \/ Has(NbL(S, g, x), res'.out)              \* expanded in this call
                               \/ FromSnapshot(g, x, res'.out)              \* from a snapshot taken earlier
                               \/ (g.kind = "idfti" /\ Has(g.q, res'.out))]_lvars   \* pushed earlier

\* negative control (must be refuted): the generator is NOT a list computed at the first next()
EagerEq == (g.st = "done" /\ g.err = "" /\ g.vis # <<>>) => g.ys = g.plan

LBound == Bound /\ (HistLen > 0 => Len(hist) <= HistLen)
DumpHist == (HistLen > 0 /\ Len(hist) = HistLen) => PrintT(ToJson(hist))
=============================================================================
