----------------------------- MODULE JudgeSingle -----------------------------
(***************************************************************************)
(* E3 for C17 / C18: trace validation with HIDDEN state.  The metaclass    *)
(* tables are private, so the executor can only log what each public call  *)
(* returned: the identity of the object (numbered by first appearance),    *)
(* the class it is an instance of, and the per-instance __init__ counters  *)
(* and first arguments kept by the harness's own classes.  The judge walks *)
(* every trace, carrying the specification's state T: an event is accepted *)
(* iff some outcome of SPost(T, call) explains the observation; T then     *)
(* follows that outcome.  A rejected event prints the failing clauses and  *)
(* the walk continues from the specification's own successor state.        *)
(***************************************************************************)
EXTENDS EGSingleton, Json, IOUtils, TLCExt

Traces == JsonDeserialize(IOEnv.EG_RECORDS)     \* sequence of [id, events]

VARIABLES tid, l, T, bad
jvars == <<tid, l, T, bad>>

Explains(o, ev) ==
  /\ o.err = (ev.res.err # "")
  /\ (~o.err => o.inst = ev.res.inst)
  /\ (ev.c.op = "sgetall" => o.out = ev.res.out)
  /\ ev.inits = o.st.inits
  /\ ev.args = o.st.arg
  /\ (o.inst # 0 /\ ~o.err) => (ev.res.cls = o.st.cls[o.inst] /\ ev.res.kind = o.st.kindOf[o.inst])

Clauses(o, ev) ==
       (IF o.err = (ev.res.err # "") THEN {} ELSE {"RaisedOrNot"})
  \cup (IF ~o.err /\ o.inst # ev.res.inst THEN {"ReturnedObjectIdentity"} ELSE {})
  \cup (IF ev.c.op = "sgetall" /\ o.out # ev.res.out THEN {"ReportedInstances"} ELSE {})
  \cup (IF ev.inits # o.st.inits THEN {"InitRuns"} ELSE {})
  \cup (IF ev.args # o.st.arg THEN {"InitArguments"} ELSE {})
  \cup (IF o.inst # 0 /\ ~o.err /\ o.inst = ev.res.inst /\ (ev.res.cls # o.st.cls[o.inst] \/ ev.res.kind # o.st.kindOf[o.inst])
          THEN {"InstanceOfCalledClass"} ELSE {})

JInit == tid \in 1..Len(Traces) /\ l = 1 /\ T = InitT /\ bad = FALSE

Step ==
  /\ l <= Len(Traces[tid].events)
  /\ LET ev   == Traces[tid].events[l]
         outs == SPost(T, ev.c)
         good == {o \in outs : Explains(o, ev)}
     IN IF good # {}
          THEN /\ \E o \in good : T' = o.st
               /\ bad' = FALSE
          ELSE LET o == CHOOSE o \in outs : TRUE IN
               /\ PrintT(ToJson([id |-> Traces[tid].id, step |-> l, fail |-> SetToSeq(Clauses(o, ev)),
                                 exp |-> [err |-> o.err, inst |-> o.inst, out |-> o.out,
                                          inits |-> o.st.inits, args |-> o.st.arg]]))
               /\ T' = o.st
               /\ bad' = TRUE
  /\ l' = l + 1 /\ UNCHANGED tid
Done == l > Len(Traces[tid].events) /\ UNCHANGED jvars
JNext == Step \/ Done
JSpec == JInit /\ [][JNext]_jvars

\* every event of every trace was examined (POSTCONDITION)
Total == LET lens == [t \in 1..Len(Traces) |-> Len(Traces[t].events)]
         IN FoldLeft(LAMBDA a, b : a + b, 0, lens)
=============================================================================
