------------------------------ MODULE EGQueries ------------------------------
(***************************************************************************)
(* Read-only queries over an EGStructure state: neighbors(), find_links(), *)
(* the three traversals and the three searches, as pure operators, plus    *)
(* the declarative notions the properties are stated in (reachability,     *)
(* hop distance, pre-order) and the lemmas connecting the two.             *)
(*                                                                         *)
(* A result is [err, exc, out]: err = the call raised (exc names the class *)
(* where the property names it), out = object numbers (0 = None).          *)
(* Directions: 0 FORWARD, 1 ANY, 2 BACKWARD (the library's constants).     *)
(* Unknown handling: 0 NONNEIGHBOR (skip), 1 NEIGHBOR (include), 2 ERROR.  *)
(* A filter is [t, L, V]: t = "none" (no callback), "all", "rej", or "sel" *)
(* (accept iff the link is in L or the other end is in V).                 *)
(***************************************************************************)
EXTENDS EGStructure

FWD == 0
ANY == 1
BWD == 2
UNK_SKIP == 0
UNK_INCL == 1
UNK_ERR  == 2

NoFilter == [t |-> "none", L |-> <<>>, V |-> <<>>]
Accept(f, e, w) == CASE f.t = "none" -> TRUE
                     [] f.t = "all"  -> TRUE
                     [] f.t = "rej"  -> FALSE
                     [] f.t = "rejz" -> FALSE     \* rejects everything; the callable itself is falsy
                     [] f.t = "sel"  -> Has(f.L, e) \/ Has(f.V, w)

QOk(out)  == [err |-> FALSE, exc |-> "", out |-> out]
QErr(exc) == [err |-> TRUE, exc |-> exc, out |-> <<>>]

-----------------------------------------------------------------------------
(* neighbors(v, direction, unknown_handling, filterfunc)                    *)

\* per-link decision: "in" (opposite end listed), "out" (skipped), "err"
Entry(S, v, e, dir, unk, f) ==
  LET k == S.kind[e]
      w == Other(S, e, v)
      pass == IF Accept(f, e, w) THEN "in" ELSE "out"
  IN IF dir = ANY THEN pass
     ELSE IF k \in UndKinds THEN pass
     ELSE IF k \in DirKinds
       THEN IF S.ends[e][IF dir = FWD THEN 1 ELSE 2] = v THEN pass ELSE "out"
     ELSE \* a two-ended link that is neither directed nor undirected
       IF unk = UNK_SKIP THEN "out"
       ELSE IF unk = UNK_INCL THEN pass
       ELSE "err"

NbErr(S, v, dir, unk, f) == \E i \in DOMAIN S.vl[v] : Entry(S, v, S.vl[v][i], dir, unk, f) = "err"

NbList(S, v, dir, unk, f) ==
  LET sel == SelectSeq(S.vl[v], LAMBDA e : Entry(S, v, e, dir, unk, f) = "in")
  IN [i \in DOMAIN sel |-> Other(S, sel[i], v)]

Nb(S, v, dir, unk, f) ==
  IF NbErr(S, v, dir, unk, f) THEN QErr("NotImplementedError") ELSE QOk(NbList(S, v, dir, unk, f))

\* Under UNK_ERR an unknown-type link raises whatever the filter says: the statement gives
\* NotImplementedError as THE outcome for such an edge, and a filter only restricts a result.
\* (An earlier version of this specification left that combination open; see DESIGN.md 10.)
NbOpen(S, v, dir, unk, f) == FALSE

-----------------------------------------------------------------------------
(* find_links(a, b, direction_sensitive, unknown_handling, filterfunc)      *)
(* (the filter sees the link only; "sel" uses L)                            *)

FLEntry(S, a, b, e, ds, unk, f) ==
  LET k == S.kind[e]
      pass == IF Accept(f, e, -1) THEN "in" ELSE "out"
  IN IF Other(S, e, a) # b THEN "out"
     ELSE IF ~ds THEN pass
     ELSE IF k \in UndKinds THEN pass
     ELSE IF k \in DirKinds THEN (IF S.ends[e][1] = a THEN pass ELSE "out")
     ELSE IF unk = UNK_SKIP THEN "out"
     ELSE IF unk = UNK_INCL THEN pass
     ELSE "err"

FindLinks(S, a, b, ds, unk, f) ==
  IF \E i \in DOMAIN S.vl[a] : FLEntry(S, a, b, S.vl[a][i], ds, unk, f) = "err"
    THEN QErr("NotImplementedError")
    ELSE QOk(SetToSeqAsc({e \in Rng(S.vl[a]) : FLEntry(S, a, b, e, ds, unk, f) = "in"}))

FLOpen(S, a, b, ds, unk, f) == FALSE

-----------------------------------------------------------------------------
(* Traversals.  M is the set of objects belonging to the universe, or      *)
(* NoUni when the universe argument is None.  fv = ff_via (a link filter   *)
(* as above), fr = ff_result (a vertex filter: "none" or "sel" over V).    *)

NoUni == {-1}
InU(M, w) == M = NoUni \/ w \in M
Keep(fr, w) == fr.t = "none" \/ (fr.t = "all") \/ (fr.t = "sel" /\ Has(fr.V, w))
Listed(fr, s) == SelectSeq(s, LAMBDA w : Keep(fr, w))

\* bft: FIFO queue, mark on enqueue
RECURSIVE BFTLoop(_, _, _, _, _, _, _, _)
BFTLoop(S, q, vis, out, M, dir, unk, fv) ==
  IF q = <<>> THEN QOk(out)
  ELSE IF NbErr(S, Head(q), dir, unk, fv) THEN QErr("NotImplementedError")
  ELSE LET step(acc, w) ==
             IF InU(M, w) /\ w \notin acc.vis
               THEN [vis |-> acc.vis \cup {w}, q |-> Append(acc.q, w), out |-> Append(acc.out, w)]
               ELSE acc
           r == FoldLeft(step, [vis |-> vis, q |-> Tail(q), out |-> out], NbList(S, Head(q), dir, unk, fv))
       IN BFTLoop(S, r.q, r.vis, r.out, M, dir, unk, fv)

BFTRaw(S, M, s, dir, unk, fv) == BFTLoop(S, <<s>>, {s}, <<s>>, M, dir, unk, fv)

\* dft_recursive: yield on entry, then descend into each not-yet-visited neighbour
RECURSIVE DFTRecStep(_, _, _, _, _, _, _)
DFTRecStep(S, v, st, M, dir, unk, fv) ==
  IF st.err THEN st
  ELSE IF NbErr(S, v, dir, unk, fv) THEN [st EXCEPT !.err = TRUE, !.vis = @ \cup {v}, !.out = Append(@, v)]
  ELSE LET st0 == [st EXCEPT !.vis = @ \cup {v}, !.out = Append(@, v)]
           step(acc, w) == IF acc.err THEN acc
                           ELSE IF InU(M, w) /\ w \notin acc.vis THEN DFTRecStep(S, w, acc, M, dir, unk, fv)
                           ELSE acc
       IN FoldLeft(step, st0, NbList(S, v, dir, unk, fv))

DFTRecRaw(S, M, s, dir, unk, fv) ==
  LET r == DFTRecStep(S, s, [err |-> FALSE, vis |-> {}, out |-> <<>>], M, dir, unk, fv)
  IN IF r.err THEN QErr("NotImplementedError") ELSE QOk(r.out)

\* dft_iterative: explicit stack, mark on pop, universe test on pop
RECURSIVE DFTILoop(_, _, _, _, _, _, _)
DFTILoop(S, stack, disc, M, dir, unk, fv) ==
  IF stack = <<>> THEN QOk(disc)
  ELSE LET v == Last(stack) rest == Front(stack) IN
       IF Has(disc, v) \/ ~InU(M, v) THEN DFTILoop(S, rest, disc, M, dir, unk, fv)
       ELSE IF NbErr(S, v, dir, unk, fv) THEN QErr("NotImplementedError")
       ELSE DFTILoop(S, rest \o NbList(S, v, dir, unk, fv), Append(disc, v), M, dir, unk, fv)

DFTIterRaw(S, M, s, dir, unk, fv) == DFTILoop(S, <<s>>, <<>>, M, dir, unk, fv)

WithResultFilter(r, fr) == IF r.err THEN r ELSE QOk(Listed(fr, r.out))

BFT(S, M, s, dir, unk, fv, fr)     == WithResultFilter(BFTRaw(S, M, s, dir, unk, fv), fr)
DFTRec(S, M, s, dir, unk, fv, fr)  == WithResultFilter(DFTRecRaw(S, M, s, dir, unk, fv), fr)
DFTIter(S, M, s, dir, unk, fv, fr) == WithResultFilter(DFTIterRaw(S, M, s, dir, unk, fv), fr)

Trav(which, S, M, s, dir, unk, fv, fr) ==
  CASE which = "bft" -> BFT(S, M, s, dir, unk, fv, fr)
    [] which = "dftr" -> DFTRec(S, M, s, dir, unk, fv, fr)
    [] which = "dfti" -> DFTIter(S, M, s, dir, unk, fv, fr)

-----------------------------------------------------------------------------
(* Declarative notions (independent of the loops above)                    *)

Succ(S, M, v, dir, unk, fv) == {w \in Rng(NbList(S, v, dir, unk, fv)) : InU(M, w)}

RECURSIVE ReachFrom(_, _, _, _, _, _)
ReachFrom(S, T, M, dir, unk, fv) ==
  LET T2 == T \cup UNION {Succ(S, M, v, dir, unk, fv) : v \in T}
  IN IF T2 = T THEN T ELSE ReachFrom(S, T2, M, dir, unk, fv)

Reach(S, M, s, dir, unk, fv) == ReachFrom(S, {s}, M, dir, unk, fv)

\* some vertex reachable from s makes neighbors() raise
ReachErr(S, M, s, dir, unk, fv) == \E v \in Reach(S, M, s, dir, unk, fv) : NbErr(S, v, dir, unk, fv)

\* hop distance by layered expansion
RECURSIVE DistLayers(_, _, _, _, _, _, _, _)
DistLayers(S, front, seen, d, M, dir, unk, fv) ==
  IF front = {} THEN [v \in {} |-> 0]
  ELSE LET nxt == (UNION {Succ(S, M, v, dir, unk, fv) : v \in front}) \ seen
       IN [v \in front |-> d] @@ DistLayers(S, nxt, seen \cup nxt, d + 1, M, dir, unk, fv)
Dist(S, M, s, dir, unk, fv) == DistLayers(S, {s}, {s}, 0, M, dir, unk, fv)

IsBFSOrder(S, out, M, s, dir, unk, fv) ==
  LET d == Dist(S, M, s, dir, unk, fv)
  IN /\ \A i \in DOMAIN out : out[i] \in DOMAIN d
     /\ \A i, j \in DOMAIN out : i < j => d[out[i]] <= d[out[j]]
     \* each vertex is discovered from the earliest-listed vertex that has it as a neighbour
     /\ \A j \in 2..Len(out) : \E i \in 1..(j-1) : out[j] \in Succ(S, M, out[i], dir, unk, fv)

\* canonical recursive pre-order, written declaratively: after v comes the
\* pre-order of its first neighbour not listed so far, and so on
RECURSIVE PreFrom(_, _, _, _, _, _, _)
PreFrom(S, v, done, M, dir, unk, fv) ==
  LET nbs == NbList(S, v, dir, unk, fv)
      go[i \in 0..Len(nbs)] ==
        IF i = 0 THEN <<v>>
        ELSE LET sofar == go[i-1]
                 w == nbs[i]
             IN IF InU(M, w) /\ ~Has(sofar, w) /\ w \notin done
                  THEN sofar \o PreFrom(S, w, done \cup Rng(sofar), M, dir, unk, fv)
                  ELSE sofar
  IN go[Len(nbs)]
Preorder(S, M, s, dir, unk, fv) == PreFrom(S, s, {}, M, dir, unk, fv)

-----------------------------------------------------------------------------
(* Searches: the code re-implements the loops with default settings         *)
(* (FORWARD, UNK_ERR, no filters) and a match test; attr[v] is the          *)
(* equality class of the attribute value of vertex v (0 = no attribute).    *)

Match(attr, w, val) == w # None /\ attr[w] # 0 /\ attr[w] = val
FirstMatch(attr, order, val) ==
  LET hits == {i \in DOMAIN order : Match(attr, order[i], val)}
  IN IF hits = {} THEN None ELSE order[Min(hits)]

\* what C08 demands: first match of the corresponding default traversal
SearchSpec(which, S, attr, M, s, val) ==
  LET t == Trav(which, S, M, s, FWD, UNK_ERR, NoFilter, NoFilter)
  IN IF t.err THEN t ELSE QOk(<<FirstMatch(attr, t.out, val)>>)

\* mirrors of the three search loops ----------------------------------------
RECURSIVE BFSLoop(_, _, _, _, _, _)
BFSLoop(S, q, vis, attr, M, val) ==
  IF q = <<>> THEN QOk(<<None>>)
  ELSE IF NbErr(S, Head(q), FWD, UNK_ERR, NoFilter) THEN QErr("NotImplementedError")
  ELSE LET step(acc, w) ==
             IF acc.found # None \/ ~InU(M, w) THEN acc
             ELSE IF Match(attr, w, val) THEN [acc EXCEPT !.found = w]
             ELSE IF w \notin acc.vis THEN [acc EXCEPT !.vis = @ \cup {w}, !.q = Append(@, w)]
             ELSE acc
           r == FoldLeft(step, [vis |-> vis, q |-> Tail(q), found |-> None],
                         NbList(S, Head(q), FWD, UNK_ERR, NoFilter))
       IN IF r.found # None THEN QOk(<<r.found>>) ELSE BFSLoop(S, r.q, r.vis, attr, M, val)
BFSMirror(S, attr, M, s, val) ==
  IF Match(attr, s, val) THEN QOk(<<s>>) ELSE BFSLoop(S, <<s>>, {s}, attr, M, val)

RECURSIVE DFSRecStep(_, _, _, _, _, _)
DFSRecStep(S, v, st, attr, M, val) ==     \* st = [err, vis, found]
  IF st.err \/ st.found # None THEN st
  ELSE IF NbErr(S, v, FWD, UNK_ERR, NoFilter) THEN [st EXCEPT !.err = TRUE]
  ELSE LET st0 == [st EXCEPT !.vis = @ \cup {v}]
           step(acc, w) ==
             IF acc.err \/ acc.found # None \/ ~InU(M, w) \/ w \in acc.vis THEN acc
             ELSE IF Match(attr, w, val) THEN [acc EXCEPT !.found = w]
             ELSE DFSRecStep(S, w, acc, attr, M, val)
       IN FoldLeft(step, st0, NbList(S, v, FWD, UNK_ERR, NoFilter))
DFSRecMirror(S, attr, M, s, val) ==
  IF Match(attr, s, val) THEN QOk(<<s>>)
  ELSE LET r == DFSRecStep(S, s, [err |-> FALSE, vis |-> {}, found |-> None], attr, M, val)
       IN IF r.err THEN QErr("NotImplementedError") ELSE QOk(<<r.found>>)

RECURSIVE DFSILoop(_, _, _, _, _, _)
DFSILoop(S, stack, disc, attr, M, val) ==
  IF stack = <<>> THEN QOk(<<None>>)
  ELSE LET v == Last(stack) rest == Front(stack) IN
       IF ~InU(M, v) \/ Has(disc, v) THEN DFSILoop(S, rest, disc, attr, M, val)
       ELSE IF Match(attr, v, val) THEN QOk(<<v>>)
       ELSE IF NbErr(S, v, FWD, UNK_ERR, NoFilter) THEN QErr("NotImplementedError")
       ELSE DFSILoop(S, rest \o NbList(S, v, FWD, UNK_ERR, NoFilter), Append(disc, v), attr, M, val)
DFSIterMirror(S, attr, M, s, val) == DFSILoop(S, <<s>>, <<>>, attr, M, val)

-----------------------------------------------------------------------------
(* Lemmas checked by TLC over every graph of the bounded configurations     *)

\* C04: w occurs k times among the FORWARD neighbours of v exactly when v
\* occurs k times among the BACKWARD neighbours of w
NbDuality(S, V, unk, f) ==
  \A v, w \in V :
    (~NbErr(S, v, FWD, unk, f) /\ ~NbErr(S, w, BWD, unk, f)) =>
       Count(NbList(S, v, FWD, unk, f), w) = Count(NbList(S, w, BWD, unk, f), v)

\* C09: |find_links(a, b)| = multiplicity of b in neighbors(a)
FindLinksVsNb(S, V, unk, f) ==
  \A a, b \in V :
    /\ LET fl == FindLinks(S, a, b, TRUE, unk, f) IN
         (~fl.err /\ ~NbErr(S, a, FWD, unk, f)) => Len(fl.out) = Count(NbList(S, a, FWD, unk, f), b)
    /\ LET fl == FindLinks(S, a, b, FALSE, unk, f) IN
         Len(fl.out) = Count(NbList(S, a, ANY, unk, f), b)

\* C06: the three traversals list exactly Reach, once each, start first; they
\* raise exactly when some reachable vertex makes neighbors() raise
TravExact(S, M, s, dir, unk, fv) ==
  \A which \in {"bft", "dftr", "dfti"} :
    LET t == Trav(which, S, M, s, dir, unk, fv, NoFilter) IN
      IF ReachErr(S, M, s, dir, unk, fv) THEN t.err
      ELSE /\ ~t.err
           /\ Rng(t.out) = Reach(S, M, s, dir, unk, fv)
           /\ NoDupSeq(t.out)
           /\ t.out[1] = s

\* C07: bft is a BFS order, dft_recursive is the canonical pre-order
TravOrder(S, M, s, dir, unk, fv) ==
  ~ReachErr(S, M, s, dir, unk, fv) =>
     /\ IsBFSOrder(S, BFTRaw(S, M, s, dir, unk, fv).out, M, s, dir, unk, fv)
     /\ DFTRecRaw(S, M, s, dir, unk, fv).out = Preorder(S, M, s, dir, unk, fv)

\* C08: each search loop returns the first match of its traversal
SearchOK(S, attr, M, s, val) ==
  ~ReachErr(S, M, s, FWD, UNK_ERR, NoFilter) =>
    /\ BFSMirror(S, attr, M, s, val)     = SearchSpec("bft", S, attr, M, s, val)
    /\ DFSRecMirror(S, attr, M, s, val)  = SearchSpec("dftr", S, attr, M, s, val)
    /\ DFSIterMirror(S, attr, M, s, val) = SearchSpec("dfti", S, attr, M, s, val)

\* C09: after unlink(a, b) find_links(a, b) is empty under every setting
UnlinkEmpties(S, a, b, Filters) ==
  \A o \in Post_Unlink(S, a, b, TRUE) : \A ds \in BOOLEAN, unk \in 0..2, f \in Filters :
     /\ FindLinks(o.st, a, b, ds, unk, f) = QOk(<<>>)
     /\ FindLinks(o.st, b, a, ds, unk, f) = QOk(<<>>)
=============================================================================
