"""setup_cmd: check every specification module with SANY (offline, from files on disk)."""
import glob
import os
import sys

from . import tlc


def main():
    bad = 0
    for p in sorted(glob.glob(os.path.join(tlc.SPEC_DIR, "*.tla"))):
        mod = os.path.basename(p)[:-4]
        try:
            tlc.sany(mod)
            print("sany ok:", mod)
        except tlc.TLCFailure as exc:
            print(exc, file=sys.stderr)
            bad += 1
    for d in ("evidence", "replays"):
        os.makedirs(os.path.join("/verif", d), exist_ok=True)
    return 2 if bad else 0
