"""C12 (exchanged containers are snapshots) and C13 (read-only operations, callback faults) -- spec/EGReadOnly.tla."""
from __future__ import annotations

import json
import os
import time
from concurrent.futures import ThreadPoolExecutor

from . import tlc, explore, structural as ST, world as W, probes as P, readonly_exec as RO
from .checks_query import qcfg
from .common import Run, Machinery

ASSUME = [
    "a snapshot is the structural projection plus, for every vertex / link / universe / law set, the sorted (name, value digest) "
    "pairs of vars(object), the private neighbour memo excluded; digests are shallow (identity of contained objects)",
    "answers of repeated calls are compared after normalisation by the executor (object numbers instead of identities, the "
    "time-stamped PlantUML note removed)",
    "faults are injected by wrapping the user callback in the harness; the exception class is harness-defined",
]


def model(run, wd):
    base = {"NVert": 3, "NEdge": 2}
    ok = tlc.run_tlc("EGReadOnly", tlc.make_cfg(dict(base, Cleanup="always"), init="ROInit", next_="RONext",
                                                invariants=["TmpClearedOnEveryExit"], properties=["ReadOnlyFrame"]),
                     wd, workers=2, tag="ro-model")
    run.add_model("pyvis-export-mechanism", ok, dict(base, Cleanup="always"))
    neg = tlc.run_tlc("EGReadOnly", tlc.make_cfg(dict(base, Cleanup="success-only"), init="ROInit", next_="RONext",
                                                 invariants=["TmpClearedOnEveryExit"]),
                      wd, workers=2, tag="ro-negctl", allow_violation=True)
    if not neg["violated"]:
        raise Machinery("negative control: export without cleanup-on-fault did not violate TmpClearedOnEveryExit")
    run.extra["negative_control"] = "EGReadOnly with Cleanup=\"success-only\" violates TmpClearedOnEveryExit as required"


def judge(recs, wd, name, shards=10):
    if not recs:
        return []
    text = tlc.make_cfg({}, invariants=["Judged"])
    n = max(1, min(shards, len(recs) // 2500 + 1))
    size = (len(recs) + n - 1) // n
    parts = [recs[i:i + size] for i in range(0, len(recs), size)]

    def one(ix):
        path = os.path.join(wd, f"rorecs-{name}-{ix}.json")
        with open(path, "w") as f:
            json.dump([{k: r[k] for k in ("id", "pre", "post", "clean", "again")} for r in parts[ix]], f)
        r = tlc.run_tlc("JudgeRO", text, wd, workers=1, tag=f"rojudge-{name}-{ix}", env={"EG_RECORDS": path}, heap="4g",
                        timeout=3000)
        if r["distinct"] != len(parts[ix]):
            raise Machinery(f"read-only judge examined {r['distinct']} of {len(parts[ix])} records")
        os.remove(path)
        return r["json"]

    out = []
    with ThreadPoolExecutor(max_workers=n) as ex:
        for js in ex.map(one, range(len(parts))):
            out.extend(js)
    return out


def run_config(run, prop, name, consts, wd, caching, select=None, probe_filter=None):
    t0 = time.time()
    gen = ST.generate(name, consts, wd)
    run.add_model(f"{name}{'+cache' if caching else ''}", gen, {k: (sorted(v) if isinstance(v, set) else v) for k, v in consts.items()})
    index = gen.pop("index")
    spec = {"engine": "readonly", "kind": prop, "select": select}
    agg = {"bad": 0, "n": 0, "judge_s": 0.0, "chunks": 0, "sampled": False}

    def probe_sink(probed):
        recs = []
        for pr in probed:
            for r in pr["probes"]:
                r["id"] = len(recs) + 1
                r["path"] = pr["path"]
                recs.append(r)
        tj = time.time()
        agg["chunks"] += 1
        verdicts = judge(recs, wd, f"{name}-{agg['chunks']}")
        agg["judge_s"] += time.time() - tj
        for v in verdicts:
            r = recs[v["id"] - 1]
            agg["bad"] += 1
            run.violation(f"{RO.ro_class(r)}{'|cache' if caching else ''}|{'+'.join(sorted(v['fail']))}",
                          f"{r['op']} ({r['cb']} k={r['k']}) violates {'+'.join(sorted(v['fail']))}",
                          {"kind": r["kind"], "config": name, "caching": caching,
                           "consts": {k: (sorted(x) if isinstance(x, set) else x) for k, x in consts.items()},
                           "path": r["path"], "op": r["op"], "cb": r["cb"], "k": r["k"], "fail": v["fail"], "detail": v.get("exp"),
                           "clean": r["clean"][:400], "again": r["again"][:400]})
        for r in recs:
            run.count_class(RO.ro_class(r) + ("|cache" if caching else ""))
        agg["n"] += len(recs)
        run.traces += len(recs)
        run.evaluations += len(recs)
        if not agg["sampled"] and recs:
            agg["sampled"] = True
            r = recs[len(recs) // 2]
            run.sample({"config": name, "caching": caching, "op": r["op"], "callback": r["cb"], "fault_at": r["k"],
                        "outcome": r.get("outcome", r.get("faulted")), "pre_S": {k: r["pre"]["S"][k] for k in ("kind", "ends", "vl")}})

    _, confirmed, st, _ = explore.explore(consts, ST.base_state(consts), index, index, probe=spec, keep_records=False,
                                          caching=caching, probe_filter=probe_filter, probe_sink=probe_sink, probe_chunk=(400, 10**9))
    t1 = time.time()
    st.update({"experiments": agg["n"], "failing": agg["bad"], "caching": caching,
               "t_total_s": round(t1 - t0, 1), "t_judge_s": round(agg["judge_s"], 1)})
    run.extra.setdefault("executions", []).append({"config": name, **st})


def replay_file(prop, path, wd):
    with open(path) as f:
        rp = json.load(f)
    consts = {k: (set(v) if isinstance(v, list) else v) for k, v in rp["consts"].items()}
    from edgegraph.structure import Vertex
    Vertex.NEIGHBOR_CACHING = bool(rp.get("caching"))
    w = W.World(consts, ST.base_state(consts))
    for c in rp["path"] or []:
        w.apply(c)
    S = w.project()
    recs = [r for r in RO.run(w, S, {"kind": prop, "select": None})
            if r["op"] == rp["op"] and r["cb"] == rp["cb"] and r["k"] == rp["k"]]
    for i, r in enumerate(recs):
        r["id"] = i + 1
    v = judge(recs, wd, "replay", shards=1)
    if v:
        print(f"VIOLATION property={prop} replay={path}  # reproduced: {json.dumps(v[0])[:300]}")
        return 1
    print(f"replay of {path}: property {prop} holds on the current tree ({len(recs)} experiment(s) re-run)")
    return 0


def c13(tier, seed, wd, replay=None):
    if replay:
        return replay_file("C13", replay, wd)
    run = Run("C13", tier, seed)
    run.rule = ("TLC checks the PyVis export mechanism (tag / emit / untag with a fault point at every callback invocation) and "
                "that the unrepaired mechanism fails; in every graph state over the pool, every read-only entry point (neighbors, "
                "find_links, 3 traversals + 3 partially consumed generators, 3 searches, basic_render, render_to_plantuml_src, "
                "make_pyvis_net, pyvis_render_customizable, nrpickler.dumps) is run on real objects with each callback raising at its "
                "k-th invocation for EVERY k up to the number of invocations of a clean run (and with no fault); snapshots around "
                "the call and the answer of a repeated well-behaved call are judged by TLC (post = pre, again = clean); caching off "
                "and on; class = (entry point, callback, first / later / no fault, caching)")
    model(run, wd)
    if tier == "quick":
        cfgs = [qcfg("graphs-2x2-DU", Kinds={"D", "U"}, OnlyOps={"new"}), qcfg("graphs-3x2-D", NV=3, InitBV=3, Kinds={"D"}, OnlyOps={"new"})]
        sel, pf = 2, (lambda ks: P.h(ks) % 3 == 0)
    else:
        cfgs = [qcfg("graphs-2x2-DUT", Kinds={"D", "U", "T"}, OnlyOps={"new", "setv"}),
                qcfg("graphs-3x2-DU", NV=3, InitBV=3, Kinds={"D", "U"}, OnlyOps={"new"})]
        sel, pf = None, (lambda ks: P.h(ks) % 2 == 0)
    for name, consts in cfgs:
        for caching in (False, True):
            run_config(run, "C13", name, consts, wd, caching, select=sel, probe_filter=pf)
    # graphs holding an edge that LOST AN END (Link.unlink_from): there the queries raise, and "however the call then ends,
    # the graph is as before" is all that is claimed - and is claimed
    lname, lconsts = qcfg("graphs-2x2-D-lostends", Kinds={"D"}, OnlyOps={"new", "lunl"}, Fams={"link"}, AllowNone=False)
    run_config(run, "C13", lname, lconsts, wd, True, select=sel if tier == "quick" else 2,
               probe_filter=lambda ks: any(len(e) == 1 for e in json.loads(ks)["ends"]) and P.h(ks) % (2 if tier == "quick" else 1) == 0)
    run.exhaustive = False
    run.assumptions = ASSUME
    mandatory = [lambda c: c.startswith("ro:make_pyvis_net,cb=rvfunc"), lambda c: c.startswith("ro:make_pyvis_net,cb=refunc"),
                 lambda c: c.startswith("ro:basic_render,cb=sort"), lambda c: c.startswith("ro:render_to_plantuml_src,cb=user_render_func"),
                 lambda c: c.startswith("ro:neighbors,cb=filterfunc") and "cache" in c, lambda c: "ibft-partial" in c,
                 lambda c: c.startswith("ro:nrpickler.dumps")]
    return run.finish(nontrivial_filter=lambda c: "cb=none" not in c, mandatory=mandatory)


def c12(tier, seed, wd, replay=None):
    if replay:
        return replay_file("C12", replay, wd)
    run = Run("C12", tier, seed)
    run.rule = ("in graph states over the pool, every container the library hands out (Vertex.links / universes, Link.vertices, "
                "Universe.vertices, UniverseLaws.edge_whitelist outer and inner, neighbors(), find_links(), traversal results) is "
                "obtained from the real objects and mutated in 9 ways (append, add, remove, clear, reverse, item assignment, item "
                "deletion, +=, update; an immutable container refusing is fine); every container passed IN (links=, universes=, "
                "attributes=, vertices=, edge_whitelist= outer and inner, adjacency dict and its value lists, matrix rows, side "
                "array) is mutated after construction; snapshots and the complete table of later query answers before / after are "
                "judged by TLC (post = pre, later answers unchanged); caching off and on; class = (accessor or constructor, "
                "mutation, whether the container accepted it, caching); non-trivial = the container accepted the mutation")
    if tier == "quick":
        cfgs = [qcfg("graphs-2x2-DU", Kinds={"D", "U"}, OnlyOps={"new"})]
        sel, pf = 2, (lambda ks: P.h(ks) % 3 == 0)
    else:
        cfgs = [qcfg("graphs-2x2-DUT", Kinds={"D", "U", "T"}, OnlyOps={"new", "setv"}),
                qcfg("graphs-3x2-DU", NV=3, InitBV=3, Kinds={"D", "U"}, OnlyOps={"new"})]
        sel, pf = None, (lambda ks: P.h(ks) % 4 == 0)
    for name, consts in cfgs:
        for caching in (False, True):
            run_config(run, "C12", name, consts, wd, caching, select=sel, probe_filter=pf)
    run.exhaustive = False
    run.assumptions = ASSUME
    mandatory = [lambda c: c.startswith("snap-out:neighbors") and "mutated" in c and "cache" in c,
                 lambda c: c.startswith("snap-out:Universe.vertices") and "mutated" in c,
                 lambda c: c.startswith("snap-in:UniverseLaws(edge_whitelist=)") and "mutated" in c,
                 lambda c: c.startswith("snap-in:load_adj_dict") and "mutated" in c,
                 lambda c: c.startswith("snap-in:Vertex(links=)") and "mutated" in c]
    return run.finish(nontrivial_filter=lambda c: "mutated" in c, mandatory=mandatory)


CHECKS = {"C12": c12, "C13": c13}
