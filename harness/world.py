"""E2: a deliberately dumb executor.

A World is a pool of REAL edgegraph objects named by small integers exactly like the TLA+
specification names them (spec/EGStructure.tla).  `apply` performs one public call, `project`
reads the abstract state back through PUBLIC ACCESSORS ONLY.  No expected values, no verdicts.
"""
from __future__ import annotations

import json

from edgegraph.structure.universe import UniverseLaws
from edgegraph.structure import (Vertex, Universe, Link, TwoEndedLink,
                                 DirectedEdge, UnDirectedEdge)
from edgegraph.builder import explicit


class _Mixin:
    """a plain mix-in placed FIRST among the bases: class options must be resolved along the MRO"""


class D2(_Mixin, DirectedEdge):
    """a subclass of DirectedEdge (multiple inheritance, mix-in first) whose constructor names its ends differently and
    hands them on positionally: library code may create an edge of a user class as cls(a, b), not with v1= / v2="""

    def __init__(self, src=None, dst=None, **kw):
        super().__init__(src, dst, **kw)


class U2(UnDirectedEdge):
    """a subclass of UnDirectedEdge"""


class T2(TwoEndedLink):
    """a subclass of TwoEndedLink (neither directed nor undirected)"""


class NLink(Link):
    """an n-ary link: plain subclass of Link"""


class EmptyVertex(Vertex):
    """a vertex that is FALSY (an "empty container"): identity, never truth value, must decide"""

    def __len__(self):
        return 0


class SizedUniverse(Universe):
    """a universe that is falsy while it has no members"""

    def __len__(self):
        return len(self.vertices)


# default pool of the structural worlds: odd vertices plain, even vertices falsy
DEFAULT_VERTEX_POOL = [Vertex, EmptyVertex]


import itertools

_SEQ = itertools.count()


def _counting(base, name):
    """a subclass of `base` whose instances record their creation order (observing, without a source hook,
    the order in which a builder creates links)"""
    def __init__(self, head=None, tail=None, **kw):       # own parameter names, ends handed on positionally
        object.__setattr__(self, "_verif_seq", next(_SEQ))
        base.__init__(self, head, tail, **kw)
    return type(name, (base,), {"__init__": __init__})


KINDS = {"D": DirectedEdge, "U": UnDirectedEdge, "T": TwoEndedLink, "D2": D2, "U2": U2, "T2": T2,
         "N": NLink}
KIND_OF = {v: k for k, v in KINDS.items()}
COUNTING = {k: _counting(v, "Counting" + v.__name__) for k, v in KINDS.items() if k != "N"}
KIND_OF.update({v: k for k, v in COUNTING.items()})

TRUTHY = [1, True, "x", [0], 2.5, -1]
FALSY = [0, None, "", [], 0.0, False]


def _as_container(items, salt):
    """the same sequence as a list, a tuple, a one-shot generator or dict keys (constructors take any iterable)"""
    kind = salt % 4
    if kind == 0:
        return list(items)
    if kind == 1:
        return tuple(items)
    if kind == 2:
        return (x for x in items)
    return dict.fromkeys(items).keys() if len({id(x) for x in items}) == len(items) else list(items)


def decode_adj(a):
    rows, i = [], 0
    while i < len(a):
        n = a[i + 1]
        rows.append((a[i], a[i + 2:i + 2 + n]))
        i += 2 + n
    return rows


def decode_rows(b):
    rows, i = [], 0
    while i < len(b):
        n = b[i]
        rows.append(b[i + 1:i + 1 + n])
        i += 1 + n
    return rows


def key(state) -> str:
    return json.dumps(state, sort_keys=True, separators=(",", ":"))


class World:
    def __init__(self, consts: dict, init: dict, vertex_cls=None):
        if vertex_cls is None or vertex_cls is Vertex:
            vertex_cls = DEFAULT_VERTEX_POOL
        self.NV, self.NU, self.NL, self.NLaw = consts["NV"], consts["NU"], consts["NL"], consts["NLaw"]
        self.NO = self.NV + self.NU
        self.O = [None] * (self.NO + 1)       # objects by object number (vertices, then universes)
        self.L = [None] * (self.NL + 1)       # links by slot
        self.LAW = [None] * (self.NLaw + 1)   # law sets
        self.nl = 0
        self.bv = 0
        self.bu = 0
        self.extra_links = []                 # links created beyond the pool (projected as NL+1..)
        self.vertex_cls = vertex_cls
        # aliased-uid pools: links, too, all carry one caller-supplied uid
        self.link_kw = {"uid": 515151} if isinstance(vertex_cls, (list, tuple)) and getattr(vertex_cls[0], "__name__", "") == "make" else {}
        for _ in range(init["bv"]):
            self._reg_vertex(self._new_vertex())
        for _ in range(init["bu"]):
            self._reg_universe(self._new_universe(), default_laws=True)
        for j in range(self.NU + 1, self.NLaw + 1):
            if init["bl"][j - 1]:
                self.LAW[j] = UniverseLaws()
        self._index()

    def _new_universe(self, **kw):
        cls = (Universe, SizedUniverse)[self.bu % 2]        # universe 1 plain, universe 2 falsy-when-empty, ...
        return cls(**kw)

    def _new_vertex(self, **kw):
        cls = self.vertex_cls
        if isinstance(cls, (list, tuple)):          # a mixed pool: classes cycle with the vertex number
            cls = cls[self.bv % len(cls)]
        return cls(**kw)

    # -- registry ---------------------------------------------------------------------------
    def _index(self):
        self.num = {id(o): i for i, o in enumerate(self.O) if o is not None}
        self.lnum = {id(e): i for i, e in enumerate(self.L) if e is not None}
        for j, e in enumerate(self.extra_links):
            self.lnum[id(e)] = self.NL + 1 + j
        self.lawnum = {id(x): i for i, x in enumerate(self.LAW) if x is not None}

    def _reg_vertex(self, v):
        self.bv += 1
        self.O[self.bv] = v
        self._index()
        return self.bv

    def _reg_universe(self, u, default_laws):
        self.bu += 1
        self.O[self.NV + self.bu] = u
        if default_laws:
            self.LAW[self.bu] = u.laws
        self._index()
        return self.NV + self.bu

    def _reg_link(self, e):
        if self.nl < self.NL:
            self.nl += 1
            self.L[self.nl] = e
        else:
            self.extra_links.append(e)
        self._index()
        return self.lnum[id(e)]

    def o(self, n):
        return None if n == 0 else self.O[n]

    def n_obj(self, x):
        return 0 if x is None else self.num.get(id(x), -1)

    def n_link(self, e):
        return 0 if e is None else self.lnum.get(id(e), -1)

    def n_law(self, x):
        return 0 if x is None else self.lawnum.get(id(x), -1)

    # -- one public call --------------------------------------------------------------------
    def apply(self, c) -> dict:
        try:
            out = self._do(c["op"], c["k"], c["a"], c["b"])
            return {"err": "", "out": out}
        except Exception as exc:  # the exception CLASS is part of the observation
            return {"err": type(exc).__name__, "out": []}

    def _do(self, op, k, a, b):
        O, L = self.o, self.L
        if op == "new":
            return [self._reg_link(KINDS[k](O(a[0]), O(a[1]), **self.link_kw))]
        if op == "lnew":
            # the ends as a list, a tuple, a one-shot generator or dict keys, varying with the call
            return [self._reg_link(KINDS[k](vertices=_as_container([O(x) for x in a], len(a) + self.nl + (a[0] if a else 0)), **self.link_kw))]
        if op == "setv":
            if a[1] == 1:
                L[a[0]].v1 = O(a[2])
            else:
                L[a[0]].v2 = O(a[2])
            return []
        if op == "vadd":
            O(a[0]).add_to_link(L[a[1]])
            return []
        if op == "vrem":
            O(a[0]).remove_from_link(L[a[1]])
            return []
        if op == "ladd":
            L[a[0]].add_vertex(O(a[1]))
            return []
        if op == "lunl":
            L[a[0]].unlink_from(O(a[1]))
            return []
        if op in ("link", "linkd", "linku"):
            if op == "link":
                r = explicit.link_from_to(O(a[0]), KINDS[k], O(a[1]), dontdup=bool(a[2]))
            elif op == "linkd":
                r = explicit.link_directed(O(a[0]), O(a[1]), dontdup=bool(a[2]))
            else:
                r = explicit.link_undirected(O(a[0]), O(a[1]), dontdup=bool(a[2]))
            if id(r) in self.lnum:
                return [self.lnum[id(r)]]
            return [self._reg_link(r)]
        if op == "unlink":
            r = explicit.unlink(O(a[0]), O(a[1]), destroy=bool(a[2]))
            if r is None:
                return []
            return [0] + sorted(self.n_link(e) for e in r)      # a set (possibly empty) is not None: marker 0 first
        if op == "uadd":
            O(self.NV + a[0]).add_vertex(O(a[1]))
            return []
        if op == "urem":
            O(self.NV + a[0]).remove_vertex(O(a[1]))
            return []
        if op == "oadd":
            O(a[0]).add_to_universe(O(self.NV + a[1]))
            return []
        if op == "orem":
            O(a[0]).remove_from_universe(O(self.NV + a[1]))
            return []
        if op == "vnew":
            v = self._new_vertex(links=_as_container([L[e] for e in a], len(a) + 2 * len(b)),
                                 universes=_as_container([O(u) for u in b], 2 * len(a) + len(b) + 1))
            return [self._reg_vertex(v)]
        if op == "unew":
            law = None if b[0] == 0 else self.LAW[b[0]]
            u = self._new_universe(vertices=_as_container([O(x) for x in a], len(a) + b[0]), laws=law)
            return [self._reg_universe(u, default_laws=(law is None))]
        if op == "setlaws":
            O(self.NV + a[0]).laws = None if a[1] == 0 else self.LAW[a[1]]
            return []
        if op == "setapp":
            self.LAW[a[0]].applies_to = O(a[1])
            return []
        if op in ("loaddict", "loadmat"):
            from edgegraph.builder import adjlist, adjmatrix
            try:
                if op == "loaddict":
                    adj = {O(key): _as_container([O(v) for v in vals], key + 2 * len(vals)) for key, vals in decode_adj(a)}
                    self.last_input = adj
                    u = adjlist.load_adj_dict(adj, linktype=COUNTING[k])
                else:
                    rows = [[(TRUTHY if cell else FALSY)[(i * 7 + j * 3 + cell) % 6] for j, cell in enumerate(row)]
                            for i, row in enumerate(decode_rows(b))]
                    side = [O(v) for v in a]
                    self.last_input = (rows, side)
                    u = adjmatrix.load_adj_matrix(rows, side, linktype=COUNTING[k])
            finally:
                self._adopt_new_links()
            return [self._reg_universe(u, default_laws=True)]
        raise RuntimeError(f"executor: unknown op {op}")

    def _adopt_new_links(self):
        """register links created behind our back, in creation order"""
        found = {}
        for ob in self.O:
            if ob is not None:
                for lk in ob.links:
                    if id(lk) not in self.lnum:
                        found[id(lk)] = lk
        for lk in sorted(found.values(), key=lambda x: getattr(x, "_verif_seq", 1 << 60)):
            self._reg_link(lk)

    # -- projection through public accessors --------------------------------------------------
    def project(self) -> dict:
        NV, NU, NL, NLaw, NO = self.NV, self.NU, self.NL, self.NLaw, self.NO
        kind = [""] * NL
        ends = [[] for _ in range(NL)]
        for e in range(1, NL + 1):
            lk = self.L[e]
            if lk is not None:
                kind[e - 1] = KIND_OF.get(type(lk), "?")
                ends[e - 1] = [self.n_obj(v) for v in lk.vertices]
        vl = [[] for _ in range(NO)]
        unis = [[] for _ in range(NO)]
        for o in range(1, NO + 1):
            ob = self.O[o]
            if ob is not None:
                vl[o - 1] = [self.n_link(x) for x in ob.links]
                unis[o - 1] = [self.n_obj(u) for u in ob.universes]
        members = [[] for _ in range(NU)]
        laws = [0] * NU
        for k in range(1, NU + 1):
            u = self.O[NV + k]
            if u is not None:
                members[k - 1] = [self.n_obj(v) for v in u.vertices]
                laws[k - 1] = self.n_law(u.laws)
        app = [0] * NLaw
        bl = [False] * NLaw
        for j in range(1, NLaw + 1):
            law = self.LAW[j]
            if law is not None:
                bl[j - 1] = True
                app[j - 1] = self.n_obj(law.applies_to)
        return {"nl": self.nl, "kind": kind, "ends": ends, "vl": vl, "unis": unis,
                "members": members, "laws": laws, "app": app, "bv": self.bv, "bu": self.bu, "bl": bl}


# -- aliasing classes (coverage accounting, DESIGN 4.3) ---------------------------------------
def alias_class(pre: dict, c: dict) -> str:
    op, a = c["op"], c["a"]
    if op == "new":
        x, y = a
        return f"new:{c['k']}:" + ("none-none" if x == 0 and y == 0 else "half" if 0 in (x, y)
                                   else "self" if x == y else "distinct")
    if op == "setv":
        e, i, n = a
        en = pre["ends"][e - 1]
        if len(en) < 2:
            return f"setv:lost-end(len{len(en)})"
        old, other = en[i - 1], en[2 - i]
        bits = [f"len{len(en)}", "self-loop" if old == other and old != 0 else "old!=other"]
        bits.append("new=None" if n == 0 else "new=old" if n == old else "new=other" if n == other else "new=fresh")
        if old == 0:
            bits.append("old=None")
        if n != 0 and e in pre["vl"][n - 1]:
            bits.append("new-already-lists")
        return "setv:" + ",".join(bits)
    if op in ("vadd", "vrem"):
        v, e = a
        cnt = pre["ends"][e - 1].count(v)
        return f"{op}:listed{int(e in pre['vl'][v - 1])},occurs{cnt},kind{pre['kind'][e - 1]}"
    if op in ("ladd", "lunl"):
        e, v = a
        cnt = pre["ends"][e - 1].count(v)
        return f"{op}:{'None' if v == 0 else 'v'},occurs{cnt},len{len(pre['ends'][e - 1])}"
    if op in ("link", "linkd", "linku"):
        x, y, d = a
        joining = [e for e in pre["vl"][x - 1] if len(pre["ends"][e - 1]) == 2 and sorted(pre["ends"][e - 1]) == sorted([x, y])]
        kinds = sorted({pre["kind"][e - 1] for e in joining})
        rev = any(pre["ends"][e - 1] == [y, x] and x != y for e in joining)
        return f"{op}:{c['k']}:dontdup{d},{'self' if x == y else 'pair'},joining{len(joining)}{kinds}{',reverse' if rev else ''}"
    if op == "unlink":
        x, y, d = a
        joining = [e for e in pre["vl"][x - 1] if len(pre["ends"][e - 1]) == 2 and sorted(pre["ends"][e - 1]) == sorted([x, y])]
        kinds = sorted({pre["kind"][e - 1] for e in joining})
        others = len(set(pre["vl"][x - 1]) | set(pre["vl"][y - 1])) - len(joining)
        return f"unlink:destroy{d},{'self' if x == y else 'pair'},joining{len(joining)}{kinds},other{min(others, 2)}"
    if op in ("uadd", "urem"):
        k, o = a
    elif op in ("oadd", "orem"):
        o, k = a
    if op in ("uadd", "urem", "oadd", "orem"):
        NV = len(pre["vl"]) - len(pre["members"])
        mem = o in pre["members"][k - 1]
        pos = pre["members"][k - 1].index(o) if mem else -1
        last = mem and pos == len(pre["members"][k - 1]) - 1
        return (f"{op}:member{int(mem)},{'self-member' if o == NV + k else 'universe' if o > NV else 'vertex'}"
                f",{'last' if last else 'inner' if mem else 'na'},n{min(len(pre['members'][k - 1]), 3)}")
    if op == "vnew":
        return f"vnew:links{len(a)}{'dup' if len(set(a)) < len(a) else ''},unis{len(c['b'])}{'dup' if len(set(c['b'])) < len(c['b']) else ''}"
    if op == "unew":
        L = c["b"][0]
        inuse = L != 0 and pre["app"][L - 1] != 0
        return f"unew:verts{len(a)}{'dup' if len(set(a)) < len(a) else ''},laws{'none' if L == 0 else 'inuse' if inuse else 'free'}"
    if op == "loaddict":
        rows = decode_adj(a)
        vals = [v for _, vs in rows for v in vs]
        selfe = any(key in vs for key, vs in rows)
        rep = any(len(set(vs)) < len(vs) for _, vs in rows)
        prior = pre["nl"] > 0
        return (f"loaddict:{c['k']}:keys{len(rows)},vals{min(len(vals), 3)}{',self' if selfe else ''}{',repeat' if rep else ''}"
                f"{',emptyrow' if any(not vs for _, vs in rows) else ''}{',prior' if prior else ''}")
    if op == "loadmat":
        rows = decode_rows(c["b"])
        n = len(a)
        ok = len(rows) == n and all(len(r) == n for r in rows)
        diag = ok and any(rows[i][i] for i in range(n))
        return (f"loadmat:{c['k']}:n{n},{'square' if ok else 'badshape-rows' + str(len(rows))}"
                f"{',diag' if diag else ''}{',dupside' if len(set(a)) < len(a) else ''},cells{min(sum(map(sum, rows)), 3)}"
                f"{',prior' if pre['nl'] > 0 else ''}")
    if op == "setlaws":
        k, L = a
        cur = pre["laws"][k - 1]
        return (f"setlaws:cur{'None' if cur == 0 else 'set'},new{'None' if L == 0 else 'same' if L == cur else 'inuse' if pre['app'][L - 1] != 0 else 'free'}")
    if op == "setapp":
        L, uo = a
        cur = pre["app"][L - 1]
        NV = len(pre["vl"]) - len(pre["members"])
        tgt = "None" if uo == 0 else "same" if uo == cur else ("haslaws" if pre["laws"][uo - NV - 1] != 0 else "nolaws")
        return f"setapp:cur{'None' if cur == 0 else 'set'},new{tgt}"
    return op
