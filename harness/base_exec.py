"""Beyond the listed properties: BaseObject as a namespace (spec/EGBase.tla).  Random call sequences on one object
per class, every call judged by TLC (follow mode)."""
from __future__ import annotations

import json
import os
import random

from . import tlc
from .common import Machinery

NAMES = {1: "x", 2: "y", 3: "colour", 4: "uid", 5: "universes", 6: "links", 7: "_hidden"}
VALUES = {1: 1, 2: "two", 3: None, 4: [4], 5: 0}
OPS = ["setattr", "setitem", "getattr", "getitem", "delattr", "delitem", "addu", "remu"]


def val_id(v):
    for k, x in VALUES.items():
        if x is v or (type(x) is type(v) and x == v):
            return k
    return -1


def project(ob, uid0, unis_pool):
    pub = [[k, val_id(v)] for k, v in ((n, vars(ob)[NAMES[n]]) for n in NAMES if NAMES[n] in vars(ob) and n not in (4, 5, 6))]
    # insertion order of vars(): recompute in dict order
    order = [n for name in vars(ob) for n, nm in NAMES.items() if nm == name and n not in (4, 5, 6)]
    attrs = [[n, val_id(vars(ob)[NAMES[n]])] for n in order]
    return {"attrs": attrs, "unis": [unis_pool.index(u) + 1 for u in ob.universes], "uid_same": ob.uid == uid0}


def run_traces(seed, ntraces, length):
    from edgegraph.structure import Vertex, Universe, BaseObject
    rnd = random.Random(seed)
    out = []
    for t in range(ntraces):
        cls = (BaseObject, Vertex)[t % 2]
        unis = [Universe(), Universe()]
        init_attrs = {} if t % 3 else {"x": VALUES[1], "colour": VALUES[2]}
        ob = cls(attributes=dict(init_attrs), uid=(777 + t if t % 4 == 0 else None))
        uid0 = ob.uid
        ro = [4, 5] + ([6] if cls is Vertex else [])
        for _ in range(length):
            op = rnd.choice(OPS)
            n = rnd.choice(list(NAMES)) if cls is Vertex else rnd.choice([k for k in NAMES if k != 6])
            v = rnd.choice(list(VALUES))
            if op in ("addu", "remu"):
                if cls is Vertex:
                    continue                # a Vertex's universe list is two-sided: C02 covers it
                a = [rnd.choice((1, 2))]
            elif op.startswith("set"):
                a = [n, v]
            else:
                a = [n]
            pre = project(ob, uid0, unis)
            res = {"err": "", "out": 0}
            try:
                name = NAMES[a[0]] if op not in ("addu", "remu") else None
                if op == "setattr":
                    setattr(ob, name, VALUES[a[1]])
                elif op == "setitem":
                    ob[name] = VALUES[a[1]]
                elif op == "getattr":
                    res["out"] = val_id(getattr(ob, name))
                elif op == "getitem":
                    res["out"] = val_id(ob[name])
                elif op == "delattr":
                    delattr(ob, name)
                elif op == "delitem":
                    del ob[name]
                elif op == "addu":
                    ob.add_to_universe(unis[a[0] - 1])
                elif op == "remu":
                    ob.remove_from_universe(unis[a[0] - 1])
            except Exception as exc:
                res["err"] = type(exc).__name__
            post = project(ob, uid0, unis)
            out.append({"id": len(out) + 1, "cls": cls.__name__, "ro": ro, "pre": pre, "c": {"op": op, "a": a}, "res": res, "post": post})
    return out


def check(run, wd, seed, tier):
    recs = run_traces(seed, 60 if tier == "quick" else 600, 25)
    bad = []
    for clsname, ro in (("BaseObject", {4, 5}), ("Vertex", {4, 5, 6})):
        part = [r for r in recs if r["cls"] == clsname]
        for j, r in enumerate(part):
            r["id"] = j + 1
        path = os.path.join(wd, f"base-{clsname}.json")
        with open(path, "w") as f:
            json.dump(part, f)
        res = tlc.run_tlc("EGBase", tlc.make_cfg({"ReadOnly": ro}, init="JInit", next_="JNext", invariants=["Judged"]), wd,
                          workers=1, tag=f"base-{clsname}", env={"EG_RECORDS": path}, heap="2g")
        if res["distinct"] != len(part):
            raise Machinery("EGBase judge did not visit every record")
        os.remove(path)
        for v in res["json"]:
            bad.append((clsname, part[v["id"] - 1], v))
    run.extra["base_namespace"] = {"calls_judged": len(recs), "deviations": len(bad),
                                   "first_deviations": [{"cls": c, "call": r["c"], "pre": r["pre"], "res": r["res"], "post": r["post"], "expected": v.get("exp")} for c, r, v in bad[:3]],
                                   "note": "beyond the listed properties: BaseObject attribute / item namespace, read-only uid (spec/EGBase.tla); informational"}
    return bad
