"""E2 for C10: (b) emission trees of the recursive reference pickler and the real effect order of the lazy
pickler; (c) round trips (same process / fresh interpreter), with the copy projected like the original."""
from __future__ import annotations

import io
import json
import os
import pickle
import subprocess
import sys

import dill

from . import world as W

LINK_POOL_PAD = 0


# ---------------------------------------------------------------------------------------------
class _Chunks:
    def __init__(self):
        self.ids = {}

    def get(self, b):
        b = bytes(b)
        if b not in self.ids:
            self.ids[b] = len(self.ids) + 1
        return self.ids[b]


class RecTracer(dill.Pickler):
    """the recursive reference: records the tree of save() calls with their writes / memoisations in order"""

    def __init__(self, file, chunks, **kw):
        dill.Pickler.__init__(self, file, **kw)
        self.nodes, self.stack, self.in_memo, self.chunks = [], [], False, chunks
        self._orig_write = self.write
        self.write = self._traced_write

    def _traced_write(self, data):
        if self.stack:
            if self.in_memo:
                self._memo_bytes += bytes(data)
            else:
                self.stack[-1].append({"t": "W", "x": self.chunks.get(data)})
        return self._orig_write(data)

    def save(self, obj, save_persistent_id=True):
        items = []
        self.nodes.append(items)
        nid = len(self.nodes)
        if self.stack:
            self.stack[-1].append({"t": "S", "x": nid})
        self.stack.append(items)
        try:
            dill.Pickler.save(self, obj, save_persistent_id)
        finally:
            self.stack.pop()

    def memoize(self, obj):
        self.in_memo, self._memo_bytes = True, b""
        try:
            dill.Pickler.memoize(self, obj)
        finally:
            self.in_memo = False
        if self.stack:
            self.stack[-1].append({"t": "M", "x": self.chunks.get(b"M" + self._memo_bytes)})


def lazy_tracer_class():
    from edgegraph.output import nrpickler

    class LazyTracer(nrpickler._NonrecursivePickler):
        """the REAL lazy pickler; only its real effects are observed (realwrite / realmemoize)"""

        def __init__(self, file, chunks, **kw):
            nrpickler._NonrecursivePickler.__init__(self, file, **kw)
            self.effects, self.in_memo, self.chunks = [], False, chunks
            self._file_write = self.realwrite
            self.realwrite = self._traced_realwrite
            self.max_depth = 0

        def _traced_realwrite(self, *args):
            if self.in_memo:
                self._memo_bytes += bytes(args[0])
            else:
                self.effects.append({"t": "W", "x": self.chunks.get(args[0])})
            return self._file_write(*args)

        def realmemoize(self, obj):
            self.in_memo, self._memo_bytes = True, b""
            try:
                dill.Pickler.memoize(self, obj)
            finally:
                self.in_memo = False
            self.effects.append({"t": "M", "x": self.chunks.get(b"M" + self._memo_bytes)})

    return LazyTracer


def mechanism_record(obj, protocol):
    """emission tree (recursive reference) + real effect sequence (lazy pickler) for one object"""
    chunks = _Chunks()
    rec = {"err": "", "tree": [], "lazy": [], "protocol": protocol}
    from edgegraph.output import nrpickler
    need = ("realwrite", "realmemoize", "realsave", "lazywrites")
    cls = getattr(nrpickler, "_NonrecursivePickler", None)
    probe = None
    try:
        probe = cls(io.BytesIO(), protocol=protocol) if cls is not None else None
    except Exception:
        probe = None
    if probe is None or not all(hasattr(probe, n) for n in need):
        rec["skip"] = "the pickler's private structure is not the one the tracer knows (binding (b) not applicable)"
        return rec
    try:
        f1 = io.BytesIO()
        rt = RecTracer(f1, chunks, protocol=protocol)
        rt.dump(obj)
        f2 = io.BytesIO()
        lt = lazy_tracer_class()(f2, chunks, protocol=protocol)
        lt.dump(obj)
    except Exception as exc:
        rec["err"] = type(exc).__name__
        return rec
    rec["tree"] = rt.nodes
    eff = lt.effects
    # the lazy pickler writes the PROTO header and STOP itself, outside any save()
    if protocol >= 2 and eff and eff[0]["t"] == "W":
        eff = eff[1:]
    if eff and eff[-1]["t"] == "W":
        eff = eff[:-1]
    rec["lazy"] = eff
    rec["same_bytes_modulo_framing"] = _strip_frames(f1.getvalue()) == _strip_frames(f2.getvalue())
    return rec


def _strip_frames(b):
    import pickletools
    out = []
    try:
        for op, arg, pos in pickletools.genops(b):
            if op.name != "FRAME":
                out.append((op.name, repr(arg)))
    except Exception:
        return b
    return out


# ---------------------------------------------------------------------------------------------
def decorate(w, variant):
    """runtime attributes, shared attribute objects, warm caches"""
    shared = ["shared-list", 1, 2]
    objs = [o for o in w.O if o is not None]
    for j, ob in enumerate(objs):
        ob.label = f"obj{j}"
        if variant % 2:
            ob.payload = shared                     # one object shared by all
        if variant % 3 == 0:
            ob.nested = {"k": (j, [j, j + 1])}
    import http
    from edgegraph.structure import Vertex, Universe, DirectedEdge, UnDirectedEdge
    for j, ob in enumerate(objs):
        if variant % 2 == 0:
            # the same class object / enum member reachable twice from one container
            ob.src_type = DirectedEdge
            ob.dst_type = DirectedEdge
            ob.status = http.HTTPStatus.OK
            ob.fallback = http.HTTPStatus.OK
        if (variant + j) % 3 == 1:
            ob.rules = {Vertex: {Vertex: UnDirectedEdge, Universe: UnDirectedEdge}}
    for j, e in enumerate(x for x in w.L if x is not None):
        e.weight = j * 1.5
        if variant % 2:
            e.payload = shared


def decor(w):
    """per-object decoration of a world (orig or copy): class names, attributes, sharing pattern"""
    objs = [o for o in w.O[1:]] + [e for e in w.L[1:]] + [x for x in w.LAW[1:]]
    out, seen = [], {}
    for ob in objs:
        if ob is None:
            out.append([])
            continue
        d = {k: v for k, v in vars(ob).items() if not k.startswith("_")}
        items = []
        for k in sorted(d):
            v = d[k]
            tag = ""
            if isinstance(v, (list, dict)):
                tag = f"#shared{seen.setdefault(id(v), len(seen))}"
            items.append([k, repr(v) + tag])
        out.append([type(ob).__module__.replace("__main__", "harness.world") + "." + type(ob).__qualname__,
                    str(ob.uid % 10 ** 9), items])
    return out


def pool_of(w):
    return {"O": w.O, "L": w.L, "LAW": w.LAW, "nl": w.nl, "bv": w.bv, "bu": w.bu,
            "consts": {"NV": w.NV, "NU": w.NU, "NL": w.NL, "NLaw": w.NLaw}}


def world_from_pool(pool):
    c = pool["consts"]
    w = W.World.__new__(W.World)
    w.NV, w.NU, w.NL, w.NLaw = c["NV"], c["NU"], c["NL"], c["NLaw"]
    w.NO = w.NV + w.NU
    w.O, w.L, w.LAW = pool["O"], pool["L"], pool["LAW"]
    w.nl, w.bv, w.bu = pool["nl"], pool["bv"], pool["bu"]
    w.extra_links = []
    w.link_kw = {}
    from edgegraph.structure import Vertex
    w.vertex_cls = Vertex
    w._index()
    return w


def projection_with_decor(w):
    S = w.project()
    S["decor"] = decor(w)
    return S


def roundtrip_same_process(w, protocol, loader):
    from edgegraph.output import nrpickler
    res = {"err": "", "out": []}
    try:
        data = nrpickler.dumps(pool_of(w), protocol=protocol)
        pool = (pickle.loads if loader == "pickle" else dill.loads)(data)
        w2 = world_from_pool(pool)
        return res, w2, data
    except Exception as exc:
        res["err"] = type(exc).__name__
        return res, None, None


FRESH_SCRIPT = r"""
import sys, json, pickle
import os; sys.path.insert(0, os.environ.get('VERIF_ROOT', '/verif')); sys.path.insert(0, os.environ.get('VERIF_REPO', '/repo'))
import dill
from edgegraph.structure import Vertex
job = json.load(open(sys.argv[1]))
Vertex.NEIGHBOR_CACHING = job['caching']
from harness import pickle_exec as PX, world as W, probes as P
out = {'err': '', 'post': None, 'records': [], 'probes': []}
try:
    data = open(job['data'], 'rb').read()
    pool = (pickle.loads if job['loader'] == 'pickle' else dill.loads)(data)
    w = PX.world_from_pool(pool)
    out['post'] = PX.projection_with_decor(w)
    S = w.project()
    # query_first = False: the copy is MUTATED BEFORE its first query in this interpreter (memos that travelled in
    # the pickle must be dropped by a mutation even though nothing was looked up here yet)
    out['probes_before'] = P.run(w, S, {'kind': 'C05', 'full': False, 'nofilter': True}) if job.get('query_first', True) else []
    for c in job['calls']:
        pre = w.project()
        res = w.apply(c)
        if w.extra_links:
            break               # the sequence left the object pool the judge is sized for: stop here
        out['records'].append({'pre': pre, 'c': c, 'res': res, 'post': w.project()})
    S2 = w.project()
    out['state_after'] = S2
    out['probes_after'] = P.run(w, S2, {'kind': 'C05', 'full': False, 'nofilter': True})
except Exception as exc:
    import traceback
    out['err'] = type(exc).__name__
    out['trace'] = traceback.format_exc()[-600:]
json.dump(out, open(sys.argv[2], 'w'))
"""


def roundtrip_fresh(w, protocol, loader, caching, calls, wd, tag, query_first=True):
    """dump here, load + query + continue the history in a NEW interpreter"""
    from edgegraph.output import nrpickler
    data_path = os.path.join(wd, f"fresh-{tag}.pkl")
    job_path = os.path.join(wd, f"fresh-{tag}.job.json")
    out_path = os.path.join(wd, f"fresh-{tag}.out.json")
    script = os.path.join(wd, "fresh_script.py")
    if not os.path.exists(script):
        with open(script, "w") as f:
            f.write(FRESH_SCRIPT)
    try:
        with open(data_path, "wb") as f:
            nrpickler.dump(pool_of(w), f, protocol=protocol)
    except Exception as exc:
        return {"err": "dump:" + type(exc).__name__}
    with open(job_path, "w") as f:
        json.dump({"data": data_path, "loader": loader, "caching": caching, "calls": calls, "query_first": query_first}, f)
    p = subprocess.run([sys.executable, script, job_path, out_path], capture_output=True, text=True, timeout=900,
                       env=dict(os.environ, PYTHONHASHSEED="0"))
    if not os.path.exists(out_path):
        return {"err": "fresh-interpreter-crashed", "trace": p.stderr[-600:]}
    with open(out_path) as f:
        out = json.load(f)
    for x in (data_path, job_path, out_path):
        os.remove(x)
    return out


def deep_chain(n, limit, kind="chain"):
    """serialise a graph far deeper than the recursion limit; returns (err, ok_after_load)"""
    from edgegraph.structure import Vertex, Universe
    from edgegraph.builder import explicit
    from edgegraph.output import nrpickler
    vs = [Vertex(attributes={"i": i}) for i in range(n)]
    u = Universe(vertices=vs)
    if kind == "chain":
        for a, b in zip(vs, vs[1:]):
            explicit.link_directed(a, b)
    elif kind == "cycle":
        for a, b in zip(vs, vs[1:] + vs[:1]):
            explicit.link_undirected(a, b)
    elif kind == "star":
        for b in vs[1:]:
            explicit.link_directed(vs[0], b)
    old = sys.getrecursionlimit()
    err, ok = "", False
    try:
        sys.setrecursionlimit(limit)
        data = nrpickler.dumps(u)
        sys.setrecursionlimit(old)
        u2 = pickle.loads(data)
        vs2 = u2.vertices
        ok = (len(vs2) == n and [v.i for v in vs2] == list(range(n))
              and all(len(v.links) == len(o.links) for v, o in zip(vs2, vs))
              and all(lk.v1.i == ol.v1.i and lk.v2.i == ol.v2.i for v, o in zip(vs2, vs) for lk, ol in zip(v.links, o.links)))
    except Exception as exc:
        err = type(exc).__name__
    finally:
        sys.setrecursionlimit(old)
    return err, ok


def _slotted_classes():
    from edgegraph.structure import Vertex, Universe

    global SlottedVertex, SlottedUniverse
    if "SlottedVertex" not in globals():
        class SlottedVertex(Vertex):
            """user data kept in slots as well as in attributes"""
            __slots__ = ("rank", "tags")

        class SlottedUniverse(Universe):
            __slots__ = ("title",)
        SlottedVertex.__qualname__ = "SlottedVertex"
        SlottedUniverse.__qualname__ = "SlottedUniverse"
        globals()["SlottedVertex"], globals()["SlottedUniverse"] = SlottedVertex, SlottedUniverse
    return globals()["SlottedVertex"], globals()["SlottedUniverse"]


def slotted_case(protocol, loader="pickle"):
    """instances of Vertex / Universe subclasses that keep data in __slots__ (protocol >= 2: pickle itself refuses such
    classes below that); returns (err, ok)"""
    from edgegraph.builder import explicit
    from edgegraph.output import nrpickler
    SV, SU = _slotted_classes()
    vs = [SV(attributes={"i": i}) for i in range(3)]
    for i, v in enumerate(vs):
        v.rank = i * 10
        v.tags = ["t", i]
    u = SU(vertices=vs)
    u.title = "slotted"
    explicit.link_directed(vs[0], vs[1])
    explicit.link_undirected(vs[1], vs[2])
    err, ok = "", False
    try:
        u2 = (pickle.loads if loader == "pickle" else dill.loads)(nrpickler.dumps(u, protocol=protocol))
        vs2 = u2.vertices
        ok = (type(u2) is SU and getattr(u2, "title", None) == "slotted" and [type(v) for v in vs2] == [SV] * 3
              and [getattr(v, "rank", None) for v in vs2] == [0, 10, 20] and [getattr(v, "tags", None) for v in vs2] == [["t", 0], ["t", 1], ["t", 2]]
              and [v.i for v in vs2] == [0, 1, 2] and [len(v.links) for v in vs2] == [1, 2, 1])
    except Exception as exc:    # noqa: BLE001
        err = type(exc).__name__
    return err, ok


def untouched_case(protocol, loader="pickle"):
    """objects that are pickled WITHOUT having been looked at first (no accessor, not even .uid, was read on the links,
    the law set and the bare BaseObject before the dump): identity data that is produced lazily must still round-trip.
    Originals are read only after the dump.  returns (err, ok)"""
    from edgegraph.structure import Vertex, Universe, DirectedEdge, UnDirectedEdge, BaseObject
    from edgegraph.structure.universe import UniverseLaws
    from edgegraph.output import nrpickler
    a, b = Vertex(), Vertex()
    laws = UniverseLaws(mixed_links=True)
    u = Universe(vertices=[a, b], laws=laws)
    e1, e2 = DirectedEdge(a, b), UnDirectedEdge(b, a)
    a.bare = BaseObject()
    err, ok = "", False
    try:
        data = nrpickler.dumps(u, protocol=protocol)
        u2 = (pickle.loads if loader == "pickle" else dill.loads)(data)
        a2, b2 = u2.vertices
        ok = ([x.uid for x in a2.links] == [e1.uid, e2.uid] and u2.laws.uid == laws.uid and a2.bare.uid == a.bare.uid
              and (a2.uid, b2.uid, u2.uid) == (a.uid, b.uid, u.uid) and u2.laws.mixed_links is True)
    except Exception as exc:    # noqa: BLE001
        err = type(exc).__name__
    return err, ok


def large_value_case(protocol, loader="pickle"):
    """attribute values big enough for pickle's own fast path (strings / bytes / bytearrays of 64 KiB and more are handed
    to the file directly, not through the pickler's write hook); returns (err, ok)"""
    from edgegraph.structure import Vertex, Universe
    from edgegraph.builder import explicit
    from edgegraph.output import nrpickler
    big_s, big_b = "x" * 70000 + "é", bytes(range(256)) * 300
    a, b = Vertex(attributes={"text": big_s, "i": 0}), Vertex(attributes={"blob": big_b, "i": 1})
    e = explicit.link_directed(a, b)
    e.payload = bytearray(big_b)
    u = Universe(vertices=[a, b])
    err, ok = "", False
    try:
        u2 = (pickle.loads if loader == "pickle" else dill.loads)(nrpickler.dumps(u, protocol=protocol))
        a2, b2 = u2.vertices
        ok = (a2.text == big_s and b2.blob == big_b and a2.links[0].payload == bytearray(big_b) and (a2.i, b2.i) == (0, 1)
              and a2.links[0] is b2.links[0] and a2.links[0].v2 is b2 and a2.universes[0] is u2)
    except Exception as exc:    # noqa: BLE001
        err = type(exc).__name__
    return err, ok


def after_failure_case(protocol):
    """a dumps() that raises half-way (an attribute that cannot be pickled: a generator) followed by an ordinary
    dumps() of a small graph; returns (first_failed, err, ok)"""
    from edgegraph.structure import Vertex, Universe
    from edgegraph.builder import explicit
    from edgegraph.output import nrpickler
    vs0 = [Vertex(attributes={"i": i}) for i in range(3)]
    explicit.link_directed(vs0[0], vs0[1])
    vs0[2].gen = (x for x in ())
    explicit.link_directed(vs0[1], vs0[2])
    try:
        nrpickler.dumps(vs0[0], protocol=protocol)
        first_failed = False
    except Exception:           # noqa: BLE001
        first_failed = True
    vs = [Vertex(attributes={"i": i}) for i in range(4)]
    u = Universe(vertices=vs)
    for a, b in zip(vs, vs[1:] + vs[:1]):
        explicit.link_directed(a, b)
    err, ok = "", False
    try:
        u2 = pickle.loads(nrpickler.dumps(u, protocol=protocol))
        vs2 = u2.vertices
        ok = ([v.i for v in vs2] == [0, 1, 2, 3] and all(len(v.links) == 2 for v in vs2)
              and all(lk.v1.i == ol.v1.i and lk.v2.i == ol.v2.i for v, o in zip(vs2, vs) for lk, ol in zip(v.links, o.links))
              and all(v.universes[0] is u2 for v in vs2))
    except Exception as exc:    # noqa: BLE001
        err = type(exc).__name__
    return first_failed, err, ok


def recursive_closure_case():
    """vertex -> attribute -> function f; f's closure -> registry; registry -> f again.  dill pickles this through its
    recursive-cell protocol; returns the exception class nrpickler raises, or '' if the round trip works"""
    from edgegraph.structure import Vertex
    from edgegraph.output import nrpickler

    class Registry:
        pass

    def make(reg):
        return lambda edge, other: reg is not None

    v, reg = Vertex(), Registry()
    f = make(reg)
    reg.callbacks = [f]
    v.on_visit = f
    try:
        dill.dumps([v])
    except Exception:
        return ""            # not even the recursive reference can do it: outside the domain
    try:
        w = pickle.loads(nrpickler.dumps([v]))
        return "" if callable(w[0].on_visit) else "CopyDiffers"
    except Exception as exc:
        return type(exc).__name__


MAIN_SUPER_SCRIPT = r"""
import sys, os, signal, pickle
sys.path.insert(0, os.environ.get('VERIF_REPO', '/repo'))
from edgegraph.structure import Vertex
from edgegraph.output import nrpickler
import dill

class MyVertex(Vertex):                 # defined in __main__: dill pickles the class by value
    def __init__(self, **kw):
        super().__init__(**kw)          # zero-argument super(): the method's closure holds the class itself

v = MyVertex()
try:
    dill.dumps(v)
except Exception:
    print("RESULT outside-domain"); sys.exit(0)
def on_alarm(*a):
    print("RESULT Hang"); sys.stdout.flush(); os._exit(0)
signal.signal(signal.SIGALRM, on_alarm); signal.alarm(20)
try:
    w = pickle.loads(nrpickler.dumps(v))
    print("RESULT " + ("ok" if type(w).__name__ == "MyVertex" and w.uid == v.uid else "CopyDiffers"))
except Exception as exc:
    print("RESULT " + type(exc).__name__)
"""


def main_super_case(wd):
    """an instance of a Vertex subclass defined in __main__ whose __init__ uses zero-argument super();
    returns '' if the round trip works, else 'Hang' / the exception class"""
    script = os.path.join(wd, "main_super_case.py")
    with open(script, "w") as f:
        f.write(MAIN_SUPER_SCRIPT)
    try:
        p = subprocess.run([sys.executable, script], capture_output=True, text=True, timeout=300,
                           env=dict(os.environ, PYTHONHASHSEED="0"))
        line = next((l for l in p.stdout.splitlines() if l.startswith("RESULT ")), "RESULT crashed")
    except subprocess.TimeoutExpired:
        line = "RESULT Hang"
    r = line.split(" ", 1)[1]
    return "" if r in ("ok", "outside-domain") else r
