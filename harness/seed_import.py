"""Confirm a seeded change delivered by a sub-agent in a scratch worktree and keep it under /verif/seeded/.

    /venv/bin/python -m harness.seed_import <property> <worktree> [name]

Confirms, in the worktree itself: the patch is what is applied there, the repository's test suite passes with
it, the demonstration exits 1 with the change and 0 without it.  Only then copies patch / demo / meta."""
import json
import os
import re
import shutil
import subprocess
import sys


def sh(cmd, cwd=None, env=None):
    return subprocess.run(cmd, shell=True, capture_output=True, text=True, cwd=cwd, env=env)


def main():
    prop, wt = sys.argv[1], sys.argv[2]
    name = sys.argv[3] if len(sys.argv) > 3 else f"{prop}-a"
    env = dict(os.environ, PYTHONPATH=wt)
    demo = os.path.join(wt, f"demo_{prop}.py")
    for f in ("patch.diff", "meta.json", f"demo_{prop}.py"):
        if not os.path.exists(os.path.join(wt, f)):
            print(f"missing {f}")
            return 1
    diff = sh("git diff -- edgegraph", cwd=wt).stdout
    if not diff.strip():
        print("no change applied in the worktree")
        return 1
    if "tests/" in sh("git status --porcelain", cwd=wt).stdout.replace(f"demo_{prop}.py", ""):
        print("warning: tests/ touched?")
    t = sh("/venv/bin/python -m pytest -q -p no:cacheprovider", cwd=wt, env=env)
    summary = next((l for l in t.stdout.splitlines()[::-1] if "passed" in l or "failed" in l), "")
    ok_tests = bool(re.search(r"\b652 passed\b", summary)) and "failed" not in summary and "error" not in summary.lower()
    with_change = sh(f"/venv/bin/python {demo}", cwd=wt, env=env)
    # (never git stash: the stash is shared by all worktrees of the repository)
    tmp = os.path.join(wt, ".seed_import.diff")
    with open(tmp, "w") as f:
        f.write(diff)
    sh(f"git apply -R {tmp}", cwd=wt)
    try:
        without = sh(f"/venv/bin/python {demo}", cwd=wt, env=env)
    finally:
        sh(f"git apply {tmp}", cwd=wt)
        os.remove(tmp)
    print(f"tests: {summary.strip()}\ndemo with change: exit {with_change.returncode}; without: exit {without.returncode}")
    if not (ok_tests and with_change.returncode == 1 and without.returncode == 0):
        print("NOT confirmed - not kept")
        return 1
    dst = os.path.join("/verif/seeded", name)
    os.makedirs(dst, exist_ok=True)
    with open(os.path.join(dst, "patch.diff"), "w") as f:
        f.write(diff)
    shutil.copy(demo, os.path.join(dst, f"demo_{prop}.py"))
    meta = json.load(open(os.path.join(wt, "meta.json")))
    meta["property"] = prop
    meta["confirmed"] = {"pytest": summary.strip(), "demo_exit_with_change": with_change.returncode,
                         "demo_exit_without_change": without.returncode,
                         "demo_output_with_change": with_change.stdout[-600:],
                         "how": "harness/seed_import.py in the agent's scratch worktree (PYTHONPATH=<worktree>)"}
    json.dump(meta, open(os.path.join(dst, "meta.json"), "w"), indent=1)
    print("kept as", dst)
    return 0


if __name__ == "__main__":
    sys.exit(main())
