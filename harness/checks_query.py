"""C04, C06, C07, C08, C09 -- query properties (spec/EGQueries.tla), answer mode."""
from __future__ import annotations

import json
import os
import time
from concurrent.futures import ThreadPoolExecutor

from . import tlc, explore, structural as ST, world as W, probes as P
from .common import Run, Machinery

LEMMAS = {
    "C04": ["InvNbDuality", "InvAnyIncludesAll"],
    "C09": ["InvFindLinksVsNb", "InvUnlinkEmpties"],
    "C06": ["InvTravExact", "InvResultFilter"],
    "C07": ["InvTravOrder"],
    "C08": ["InvSearchOK"],
}

ASSUME = [
    "answers are compared with operators of spec/EGQueries.tla that mirror the loops of the code; TLC separately checks, "
    "on every graph of the lemma configuration, that those operators satisfy the declarative statement "
    "(reachability, BFS levels, pre-order, duality, find_links/neighbors agreement)",
    "filters used are pure functions of link / vertex identity; graphs are those reachable through the public API "
    "over the stated pool (all link orders the API can produce)",
    "TLC (tla2tools 1.8) evaluates the specification correctly; the Python executor holds no expectations",
]


def qcfg(name, **kw):
    c = dict(ST.BASE)
    c.update({"Fams": {"link"}, "OnlyOps": {"new", "setv"}})
    c.update(kw)
    return name, c


def lemma_run(run, prop, name, consts, wd, timeout=3000):
    """E1a: the design-level lemmas on every graph of the configuration (16 workers, no emission)."""
    c = dict(consts)
    c["DoEmit"] = False
    text = tlc.make_cfg(c, invariants=LEMMAS[prop], constraint="Bound", action_constraint="Emit", view="View")
    res = tlc.run_tlc("MC_Queries", text, wd, workers=16, tag=f"lemma-{name}", timeout=timeout)
    run.add_model(f"lemmas:{name}", res, {k: (sorted(v) if isinstance(v, set) else v) for k, v in c.items()})
    run.extra.setdefault("lemmas_checked", []).append({"config": name, "invariants": LEMMAS[prop],
                                                        "distinct_states": res["distinct"]})


def judge(prop, consts, probed, wd, name, shards=12):
    if not probed:
        return []
    jc = {k: consts[k] for k in ("NV", "NU", "NL", "NLaw")}
    jc["Prop"] = prop
    text = tlc.make_cfg(jc, invariants=["Judged"])
    nprobes = sum(len(r["probes"]) for r in probed)
    n = max(1, min(shards, nprobes // 20000 + 1, len(probed)))
    size = (len(probed) + n - 1) // n
    parts = [probed[i:i + size] for i in range(0, len(probed), size)]

    def one(ix):
        part = parts[ix]
        path = os.path.join(wd, f"qrecs-{name}-{ix}.json")
        with open(path, "w") as f:
            json.dump([{"id": r["id"], "S": r["S"], "probes": r["probes"]} for r in part], f)
        r = tlc.run_tlc("JudgeQueries", text, wd, workers=1, tag=f"qjudge-{name}-{ix}",
                        env={"EG_RECORDS": path}, heap="4g", timeout=3000)
        if r["distinct"] != len(part):
            raise Machinery(f"query judge examined {r['distinct']} of {len(part)} records ({name}/{ix})")
        os.remove(path)
        return r["json"]

    out = []
    with ThreadPoolExecutor(max_workers=n) as ex:
        for js in ex.map(one, range(len(parts))):
            out.extend(js)
    return out


def run_config(run, prop, name, consts, wd, spec, *, caching=False, vertex_cls=None, probe_filter=None,
               simulate=None, depth=None, seed=None):
    t0 = time.time()
    gen = ST.generate(name, consts, wd, simulate=simulate, depth=depth, seed=seed)
    run.add_model(name, gen, {k: (sorted(v) if isinstance(v, set) else v) for k, v in consts.items()})
    index = gen.pop("index")
    init = ST.base_state(consts)
    t1 = time.time()
    agg = {"bad": 0, "judge_s": 0.0, "chunks": 0, "sampled": False}

    def probe_sink(probed):
        tj = time.time()
        agg["chunks"] += 1
        verdicts = judge(prop, consts, probed, wd, f"{name}-{agg['chunks']}")
        agg["judge_s"] += time.time() - tj
        by_id = {r["id"]: r for r in probed}
        for v in verdicts:
            r = by_id[v["id"]]
            for j, e in zip(v["bad"], v["exp"]):
                p = r["probes"][j - 1]
                agg["bad"] += 1
                cls = P.probe_class(r["S"], p)
                run.violation(f"{cls}|Answer",
                              f"{p['q']}{p['a']} f={p['f']['t']} answered {p['res']} but the specification says {e}",
                              {"kind": "query", "config": name,
                               "consts": {k: (sorted(x) if isinstance(x, set) else x) for k, x in consts.items()},
                               "caching": caching, "vertex_cls": vertex_cls, "path": r["path"], "state": r["S"],
                               "probe": {k: p[k] for k in ("q", "a", "f", "g", "M", "attr")},
                               "observed": p["res"], "expected": e})
            for rel in v.get("rel", []):
                agg["bad"] += 1
                run.violation(f"{prop}:{rel}|Relational", f"logged answers in state {r['S']['ends']} violate {rel}",
                              {"kind": "query-rel", "config": name, "path": r["path"], "state": r["S"], "rel": rel,
                               "consts": {k: (sorted(x) if isinstance(x, set) else x) for k, x in consts.items()},
                               "caching": caching, "vertex_cls": vertex_cls, "spec": spec})
        for r in probed:
            for p in r["probes"]:
                run.count_class(P.probe_class(r["S"], p))
                run.evaluations += 1
        run.traces += len(probed)
        if not agg["sampled"]:
            for r in probed:
                if r["probes"]:
                    agg["sampled"] = True
                    run.sample({"config": name, "state": {k: r["S"][k] for k in ("kind", "ends", "vl")},
                                "probe": r["probes"][len(r["probes"]) // 2]})
                    break

    unl = {"n": 0, "bad": 0}
    holder = {}

    def unlink_sink(records):
        """C09, last clause, on the REAL post-state of every executed unlink() (JudgeStruct, Prop C09)"""
        recs = [r for r in records if r["c"]["op"] == "unlink"]
        for j, r in enumerate(recs):
            r["id"] = j + 1
        unl["n"] += len(recs)
        for v in ST.judge("C09", consts, recs, wd, f"{name}-unlink", shards=2):
            r = recs[v["id"] - 1]
            unl["bad"] += 1
            run.violation(f"unlink-then-find:{'+'.join(sorted(v['fail']))}|destroy{r['c']['a'][2]}",
                          f"after unlink{r['c']['a']} the real graph violates {'+'.join(sorted(v['fail']))}",
                          {"kind": "query-unlink", "config": name, "consts": {k: (sorted(x) if isinstance(x, set) else x) for k, x in consts.items()},
                           "caching": caching, "vertex_cls": vertex_cls, "path": holder.get("c", {}).get(W.key(r["pre"])),
                           "call": r["c"], "observed": {"pre": r["pre"], "res": r["res"], "post": r["post"]}})
        for r in recs:
            run.count_class(f"unlink-then-find:destroy{r['c']['a'][2]},{'self' if r['c']['a'][0] == r['c']['a'][1] else 'pair'}")

    want_records = prop == "C09" and "unlink" in (consts.get("OnlyOps") or {"unlink"})
    _, confirmed, st, _ = explore.explore(consts, init, index, index, caching=caching, probe=spec, vertex_cls=vertex_cls,
                                          keep_records=want_records, sink=unlink_sink if want_records else None, confirmed_out=holder,
                                          probe_filter=probe_filter, probe_sink=probe_sink)
    if want_records:
        st["unlink_calls_judged"] = unl["n"]
    t2 = time.time()
    st.update({"probes_failing": agg["bad"], "t_generate_s": round(t1 - t0, 1), "t_execute_and_judge_s": round(t2 - t1, 1),
               "t_judge_s": round(agg["judge_s"], 1), "vertex_cls": vertex_cls, "caching": caching})
    run.extra.setdefault("executions", []).append({"config": name, **st})
    return st


def replay_query(prop, path, wd):
    with open(path) as f:
        rp = json.load(f)
    if rp["kind"] == "lazy-trace":
        from . import lazy_exec
        if lazy_exec.replay(rp, wd):
            print(f"VIOLATION property={prop} replay={path}  # reproduced: the generator deviates from spec/EGLazy.tla")
            return 1
        print(f"replay of {path}: property {prop} holds on the current tree")
        return 0
    consts = {k: (set(v) if isinstance(v, list) and k in ("Kinds", "Fams", "OnlyOps") else v) for k, v in rp["consts"].items()}
    from edgegraph.structure import Vertex
    Vertex.NEIGHBOR_CACHING = bool(rp.get("caching"))
    w = W.World(consts, ST.base_state(consts), P.VERTEX_CLASSES[rp.get("vertex_cls") or "Vertex"])
    for c in rp["path"] or []:
        w.apply(c)
    S = w.project()
    if rp["kind"] == "query-unlink":
        res = w.apply(rp["call"])
        rec = {"id": 1, "pre": S, "c": rp["call"], "res": res, "post": w.project()}
        print(json.dumps(rec)[:1500])
        if ST.judge("C09", consts, [rec], wd, "replay", shards=1):
            print(f"VIOLATION property={prop} replay={path}  # reproduced: the graph after unlink{rp['call']['a']} still joins the pair / lost other links")
            return 1
        print(f"replay of {path}: property {prop} holds on the current tree")
        return 0
    if rp["kind"] == "query-deep":
        run = Run(prop, "quick", 0)
        deep_stage(run, prop, wd, rp["n"], rp.get("wide", 1300))
        if run.violations:
            print(f"VIOLATION property={prop} replay={path}  # reproduced: {run.violations[0]['what'][:200]}")
            return 1
        print(f"replay of {path}: property {prop} holds on the current tree")
        return 0
    if rp["kind"] == "query-rel":
        probes = P.run(w, S, rp["spec"])
    else:
        probes = [P.exec_probe(w, rp["probe"], {})]
    rec = {"id": 1, "S": S, "probes": probes, "path": rp["path"]}
    verdicts = judge(prop, consts, [rec], wd, "replay", shards=1)
    print(json.dumps({"state": S, "probes": probes[:3]}, indent=1)[:3000])
    if verdicts:
        print(f"VIOLATION property={prop} replay={path}  # reproduced: {json.dumps(verdicts[0])[:300]}")
        return 1
    print(f"replay of {path}: property {prop} holds on the current tree")
    return 0


BIG = dict(NV=6, InitBV=6, NL=9, Kinds={"D", "U"}, AllowNone=False, OnlyOps={"new"})


def big_filter(minlinks, one_in):
    """probe only dense graphs, and a hash-chosen fraction of them"""
    def f(ks):
        return json.loads(ks)["nl"] >= minlinks and P.h(ks) % one_in == 0
    return f


def _deep_world(shape, n):
    """-> (world, consts, universe members or (-1,))"""
    if shape == "wide-tree":
        # shallow but LARGE: a root, three hubs, n leaves spread over the hubs, walked inside a universe holding all of
        # them (more members than the interpreter's recursion limit, depth 2)
        nv = n + 4
        consts = dict(ST.BASE, NV=nv, InitBV=nv, NL=nv - 1, Kinds={"D", "U"})
        w = W.World(consts, ST.base_state(consts), P.VERTEX_CLASSES["PlainVertex"])
        for hub in (2, 3, 4):
            w.apply({"op": "new", "k": "D", "a": [1, hub], "b": []})
        for i in range(5, nv + 1):
            w.apply({"op": "new", "k": "D", "a": [2 + i % 3, i], "b": []})
        return w, consts, tuple(range(1, nv + 1))
    consts = dict(ST.BASE, NV=n + 2, InitBV=n + 2, NL=n + 1, Kinds={"D", "U"})
    w = W.World(consts, ST.base_state(consts), P.VERTEX_CLASSES["PlainVertex"])
    if shape == "branch-then-chain":
        w.apply({"op": "new", "k": "D", "a": [1, n + 2], "b": []})
    if shape == "undirected-path":
        for i in range(1, n + 2):
            w.apply({"op": "new", "k": "U", "a": [i, i + 1], "b": []})
    else:
        for i in range(1, n + 1):
            w.apply({"op": "new", "k": "D", "a": [i, i + 1], "b": []})
    if shape == "chain-then-branch":
        w.apply({"op": "new", "k": "D", "a": [1, n + 2], "b": []})
    return w, consts, (-1,)


def deep_stage(run, prop, wd, n=450, wide=1300):
    """structures far beyond the small pools: a chain of n vertices with a side branch created after / before it, an
    undirected path, and a shallow tree of `wide` leaves inside a universe; judged by the same operators (TLC with a
    large thread stack)"""
    groups = []
    for shapes, size in ((("chain-then-branch", "branch-then-chain", "undirected-path"), n), (("wide-tree",), wide)):
        records = []
        for shape in shapes:
            w, consts, M = _deep_world(shape, size)
            S = w.project()
            nv = S["bv"]
            cache = {}
            probes = []
            if prop == "C08":
                attr = [0] * nv
                attr[nv - 22] = 1
                attr[nv - 1] = 1          # the far end of the chain's last link / the side branch / the last leaf
                attr[5] = 2
                for q in ("bfs", "dfsr", "dfsi"):
                    for val in (1, 2, 3):
                        probes.append(P.exec_probe(w, P.desc(q, (1, val), attr=attr, M=M), cache))
            else:
                dirs = (0, 1) if shape == "undirected-path" else (0,)
                for q in ("dftr", "dfti", "bft", "idftr", "idfti", "ibft"):
                    for d in dirs:
                        probes.append(P.exec_probe(w, P.desc(q, (1, d, 2), M=M), cache))
            records.append({"id": len(records) + 1, "S": S, "probes": probes, "path": [], "shape": shape, "consts": consts, "n": size})
        groups.append(records)
    failing = 0
    for gi, records in enumerate(groups):
        jc = {k: records[0]["consts"][k] for k in ("NV", "NU", "NL", "NLaw")}
        jc["Prop"] = prop
        path = os.path.join(wd, f"deep-{prop}-{gi}.json")
        with open(path, "w") as f:
            json.dump([{"id": r["id"], "S": r["S"], "probes": r["probes"]} for r in records], f)
        res = tlc.run_tlc("JudgeQueries", tlc.make_cfg(jc, invariants=["Judged"]), wd, workers=1, tag=f"deep-{prop}-{gi}",
                          env={"EG_RECORDS": path}, heap="6g", stack="1000m", timeout=1800)
        os.remove(path)
        if res["distinct"] != len(records):
            raise Machinery("deep-structure judge did not visit every record")
        failing += len(res["json"])
        for v in res["json"]:
            r = records[v["id"] - 1]
            for j, e in zip(v["bad"], v["exp"]):
                p = r["probes"][j - 1]
                run.violation(f"deep:{r['shape']}:{p['q']}|Answer",
                              f"{p['q']}{p['a']} on a {r['shape']} of {r['n']} vertices answered {str(p['res'])[:120]} but the specification says {str(e)[:120]}",
                              {"kind": "query-deep", "shape": r["shape"], "n": n, "wide": wide, "probe": {k: p[k] for k in ("q", "a", "attr")}})
        for r in records:
            for p in r["probes"]:
                run.count_class(f"deep:{r['shape']}:{p['q']}")
                run.evaluations += 1
        run.traces += len(records)
    run.extra["deep_structures"] = {"vertices": [r["S"]["bv"] for g in groups for r in g], "shapes": [r["shape"] for g in groups for r in g],
                                    "failing": failing}


def nontrivial_probe_class(c):
    return "kinds=-" not in c and "plain" not in c


def c04(tier, seed, wd, replay):
    if replay:
        return replay_query("C04", replay, wd)
    run = Run("C04", tier, seed)
    run.rule = ("in every graph state reachable through the API over the pool, neighbors() is called on the real objects "
                "for every vertex x 3 directions x 3 unknown-handling modes x 6 filters (none, accept-all, reject-all, three "
                "selective ones) and TLC compares each answer (list or exception class) with EGQueries!Nb; the FORWARD/BACKWARD "
                "duality is re-evaluated on the logged answers; class = (direction, handling, filter, link kinds at the vertex, "
                "positions of the vertex, parallel edges); non-trivial = the vertex has at least one link")
    spec = {"kind": "C04"}
    if tier == "quick":
        lemma_run(run, "C04", "lemma-3x2", qcfg("l", NV=3, InitBV=3)[1], wd)
        cfgs = [qcfg("graphs-2x2-DUT", Kinds={"D", "U", "T"}, OnlyOps={"new", "setv", "unlink"}, Fams={"link", "expl"}),
                qcfg("graphs-3x2-sub", NV=3, InitBV=3, Kinds={"D2", "U2", "T2"}, OnlyOps={"new"})]
    else:
        lemma_run(run, "C04", "lemma-3x3", qcfg("l", NV=3, InitBV=3, NL=3, OnlyOps={"new"})[1], wd)
        lemma_run(run, "C04", "lemma-3x2", qcfg("l", NV=3, InitBV=3)[1], wd)
        cfgs = [qcfg("graphs-2x2-DUT", Kinds={"D", "U", "T"}, OnlyOps={"new", "setv", "unlink"}, Fams={"link", "expl"}),
                qcfg("graphs-3x2-all", NV=3, InitBV=3, Kinds={"D", "U", "T", "D2", "U2", "T2"}, OnlyOps={"new", "setv"}),
                qcfg("graphs-3x3-DUT", NV=3, InitBV=3, NL=3, Kinds={"D", "U", "T"}, OnlyOps={"new"})]
    for name, consts in cfgs:
        run_config(run, "C04", name, consts, wd, spec)
    if tier == "thorough":
        name, consts = cfgs[0]
        run_config(run, "C04", name + "+cache", consts, wd, spec, caching=True)
    run.exhaustive = True
    run.assumptions = ASSUME
    mandatory = [lambda c: c.startswith("nb:") and "pos=both" in c,
                 lambda c: c.startswith("nb:") and "parallel" in c,
                 lambda c: c.startswith("nb:") and ("kinds=D+T" in c or "kinds=T+U" in c),
                 lambda c: c.startswith("nb:") and "unk1" in c and "f=rej" in c and "T" in c.split("kinds=")[1]]
    return run.finish(nontrivial_filter=nontrivial_probe_class, mandatory=mandatory)



def c09(tier, seed, wd, replay):
    if replay:
        return replay_query("C09", replay, wd)
    run = Run("C09", tier, seed)
    run.rule = ("in every graph state reachable through the API over the pool (unlink included, so post-unlink states are "
                "probed), find_links() is called on the real objects for every ordered vertex pair (a = b included) x "
                "direction flag x 3 unknown modes x 5 link filters and TLC compares the returned set / exception with "
                "EGQueries!FindLinks; |find_links| = multiplicity in neighbors() is re-evaluated on the logged answers; "
                "class = (flag, handling, filter, self/pair, number and kinds of joining links); non-trivial = a joining link exists")
    spec = {"kind": "C09"}
    if tier == "quick":
        lemma_run(run, "C09", "lemma-2x2", qcfg("l", OnlyOps={"new", "setv"})[1], wd)
        cfgs = [qcfg("graphs-2x2-DUT", Kinds={"D", "U", "T"}, OnlyOps={"new", "setv", "unlink"}, Fams={"link", "expl"}),
                qcfg("graphs-3x2-sub", NV=3, InitBV=3, Kinds={"D2", "T2"}, OnlyOps={"new", "unlink"}, Fams={"link", "expl"})]
    else:
        lemma_run(run, "C09", "lemma-3x2", qcfg("l", NV=3, InitBV=3)[1], wd)
        lemma_run(run, "C09", "lemma-3x3", qcfg("l", NV=3, InitBV=3, NL=3, OnlyOps={"new"})[1], wd)
        cfgs = [qcfg("graphs-2x2-DUT", Kinds={"D", "U", "T"}, OnlyOps={"new", "setv", "unlink"}, Fams={"link", "expl"}),
                qcfg("graphs-3x2-all", NV=3, InitBV=3, Kinds={"D", "U", "T", "D2", "U2", "T2"}, OnlyOps={"new", "unlink"}, Fams={"link", "expl"}),
                qcfg("graphs-2x3-DUT", NL=3, Kinds={"D", "U", "T"}, OnlyOps={"new", "unlink"}, Fams={"link", "expl"})]
    for name, consts in cfgs:
        run_config(run, "C09", name, consts, wd, spec)
    run.exhaustive = True
    run.assumptions = ASSUME
    mandatory = [lambda c: c.startswith("fl:") and "self" in c and "joining1" in c,
                 lambda c: c.startswith("fl:") and "joining2" in c,
                 lambda c: c.startswith("fl:") and "unk1" in c and "f=rej" in c and "T" in c.split("joining")[1]]
    return run.finish(nontrivial_filter=lambda c: (c.startswith("fl:") and "joining0" not in c) or (c.startswith("nb:") and "kinds=-" not in c),
                      mandatory=mandatory)


def _trav(prop, tier, seed, wd, replay, rule):
    if replay:
        return replay_query(prop, replay, wd)
    run = Run(prop, tier, seed)
    run.rule = rule
    if tier == "quick":
        lemma_run(run, prop, "lemma-3x2", qcfg("l", NV=3, InitBV=3)[1], wd)
        spec = {"kind": prop, "density": 1, "seed": seed}
        cfgs = [qcfg("graphs-2x2-DUT", Kinds={"D", "U", "T"}, OnlyOps={"new", "setv"})]
        extra = [(qcfg("graphs-3x2-DU", NV=3, InitBV=3, Kinds={"D", "U"}, OnlyOps={"new"}),
                  {"kind": prop, "density": 1, "seed": seed, "unks": [2]}, None, None),
                 (qcfg("graphs-3x3-D", NV=3, InitBV=3, NL=3, Kinds={"D"}, OnlyOps={"new"}, AllowNone=False),
                  {"kind": prop, "density": 1, "seed": seed, "unks": [2]}, None, None),
                 (qcfg("graphs-sim-6x9", **BIG), {"kind": prop, "density": 1, "seed": seed, "big": True, "unks": [2]},
                  ("num=20", 10), big_filter(6, 12))]
    else:
        lemma_run(run, prop, "lemma-3x2", qcfg("l", NV=3, InitBV=3)[1], wd)
        lemma_run(run, prop, "lemma-3x3", qcfg("l", NV=3, InitBV=3, NL=3, Kinds={"D", "U", "T"}, OnlyOps={"new"})[1], wd, timeout=7000)
        spec = {"kind": prop, "density": 3, "seed": seed}
        cfgs = [qcfg("graphs-2x2-DUT", Kinds={"D", "U", "T"}, OnlyOps={"new", "setv"}),
                qcfg("graphs-3x2-DUT", NV=3, InitBV=3, Kinds={"D", "U", "T"}, OnlyOps={"new", "setv"}),
                qcfg("graphs-3x3-DU", NV=3, InitBV=3, NL=3, Kinds={"D", "U"}, OnlyOps={"new"}),
                qcfg("graphs-4x3-D", NV=4, InitBV=4, NL=3, Kinds={"D"}, OnlyOps={"new"}, AllowNone=False)]
        extra = [(qcfg("graphs-sim-6x9", **BIG), {"kind": prop, "density": 2, "seed": seed, "big": True},
                  ("num=120", 10), big_filter(5, 10)),
                 (qcfg("graphs-sim-5x6-mixed", NV=5, InitBV=5, NL=6, Kinds={"D", "U", "T", "D2"}, OnlyOps={"new", "setv"}),
                  {"kind": prop, "density": 1, "seed": seed, "big": True}, ("num=60", 10), big_filter(3, 6))]
    for name, consts in cfgs:
        # the 3-link pool alone is 27 million probes (35 min): every third state of it, chosen by hash
        pf = big_filter(0, 3) if (tier == "thorough" and name == "graphs-3x3-DU") else None
        run_config(run, prop, name, consts, wd, spec, probe_filter=pf)
    for (name, consts), sp, sim, pf in extra:
        if sim:
            run_config(run, prop, name, consts, wd, sp, simulate=sim[0], depth=sim[1], seed=seed + 1, probe_filter=pf)
        else:
            run_config(run, prop, name, consts, wd, sp, probe_filter=pf)
    if tier == "thorough":
        name, consts = cfgs[0]
        run_config(run, prop, name + "+cache", consts, wd, spec, caching=True)
    else:
        # with the neighbour memo on: every state's traversals run one after the other on warm entries, so an order
        # that depends on whether an answer came from the memo (three links at one vertex: [b, c, b]) shows
        (name, consts), sp, _, _ = extra[1]
        run_config(run, prop, name + "+cache", consts, wd, sp, caching=True)
    deep_stage(run, prop, wd, 450 if tier == "quick" else 800)
    if prop == "C06":
        from . import lazy_exec
        lazy_exec.check(run, wd, seed, tier)       # generator forms interleaved with structural calls (spec/EGLazy.tla)
    run.exhaustive = True
    run.assumptions = ASSUME
    mandatory = [lambda c: "selfloop" in c, lambda c: "parallel" in c, lambda c: "mixed" in c,
                 lambda c: "uni=part" in c, lambda c: "uni=None" in c, lambda c: c.startswith("i"),
                 lambda c: "fr=sel" in c, lambda c: "fv=sel" in c]
    return run.finish(nontrivial_filter=lambda c: "plain" not in c or "uni=part" in c, mandatory=mandatory)


def c06(tier, seed, wd, replay):
    return _trav("C06", tier, seed, wd, replay,
                 "in every fully assigned graph state reachable through the API over the pool, bft / dft_recursive / "
                 "dft_iterative and their generator forms are run on the real objects for every universe (None and every "
                 "non-empty vertex subset, as a fresh Universe) x every start x 3 directions x 3 unknown modes, plus sampled "
                 "ff_via / ff_result variants; TLC compares each listing (or exception class) with the traversal operators of "
                 "EGQueries, which TLC separately shows to list exactly Reach, once each, start first (InvTravExact); class = "
                 "(form, direction, handling, filters, universe kind, graph shape); non-trivial = graph has a self-loop, parallel "
                 "or mixed edges, or the universe is a proper subset")


def c07(tier, seed, wd, replay):
    return _trav("C07", tier, seed, wd, replay,
                 "same executions as C06, judged for ORDER: each real listing must equal, element by element, the operator "
                 "mirroring the loop (FIFO mark-on-enqueue, recursive pre-order, LIFO mark-on-pop); TLC separately shows on every "
                 "graph of the lemma configuration that the bft operator yields a BFS level order and the dft_recursive operator "
                 "the canonical pre-order (InvTravOrder); determinism is covered by executing every state's path on fresh objects "
                 "in separate runs (lemma graphs, quick and thorough tiers agree with the same operator)")


def c08(tier, seed, wd, replay):
    if replay:
        return replay_query("C08", replay, wd)
    run = Run("C08", tier, seed)
    run.rule = ("in every fully assigned graph state over the pool, bfs / dfs_recursive / dfs_iterative are run on the real "
                "objects for sampled attribute assignments (classes: absent, 1, 2; stored as 1 / 1.0 / True / built strings, sought "
                "as equal-but-not-identical values and one absent value) x every universe x every start x 3 sought values, for "
                "Vertex, a subclass, and subclasses whose instances are falsy (__bool__ False, __len__ 0); TLC compares the "
                "returned vertex with the first match of the corresponding default traversal operator; class = (search, number "
                "of matches, start matches, universe kind, some vertex lacks the attribute); non-trivial = at least one match")
    vectors = 5 if tier == "quick" else 10
    spec = {"kind": "C08", "seed": seed, "vectors": vectors}
    if tier == "quick":
        lemma_run(run, "C08", "lemma-3x2-D", qcfg("l", NV=3, InitBV=3, Kinds={"D", "U"}, OnlyOps={"new"})[1], wd)
        cfgs = [(qcfg("graphs-3x2-DU", NV=3, InitBV=3, Kinds={"D", "U"}, OnlyOps={"new"}), "tagged-mixed"),
                (qcfg("graphs-2x2-DU", Kinds={"D", "U"}, OnlyOps={"new", "setv"}), "Vertex"),
                (qcfg("graphs-3x3-D-chain", NV=3, InitBV=3, NL=3, Kinds={"D"}, OnlyOps={"new"}), "EmptyLenVertex")]
    else:
        lemma_run(run, "C08", "lemma-3x2", qcfg("l", NV=3, InitBV=3, Kinds={"D", "U"})[1], wd)
        cfgs = [(qcfg("graphs-3x2-DU", NV=3, InitBV=3, Kinds={"D", "U"}, OnlyOps={"new", "setv"}), "tagged-mixed"),
                (qcfg("graphs-3x2-DU", NV=3, InitBV=3, Kinds={"D", "U"}, OnlyOps={"new"}), "Vertex"),
                (qcfg("graphs-3x2-DU", NV=3, InitBV=3, Kinds={"D", "U"}, OnlyOps={"new"}), "SubVertex"),
                (qcfg("graphs-3x3-D", NV=3, InitBV=3, NL=3, Kinds={"D"}, OnlyOps={"new"}), "EmptyLenVertex"),
                (qcfg("graphs-4x3-D", NV=4, InitBV=4, NL=3, Kinds={"D"}, OnlyOps={"new"}), "FalsyVertex")]
    for (name, consts), vcls in cfgs:
        pf = None
        if name.endswith("chain"):
            pf = lambda ks: P.h(ks) % 6 == 0
        elif name in ("graphs-4x3-D", "graphs-3x3-D"):
            pf = big_filter(0, 4)           # 10 attribute vectors x every universe x every start on >4000 graphs: every fourth graph
        run_config(run, "C08", f"{name}:{vcls}", consts, wd, spec, vertex_cls=vcls, probe_filter=pf)
    # dense random graphs from the specification's own random walk, duplicate-target attribute vectors
    bigspec = {"kind": "C08", "seed": seed, "vectors": 3 if tier == "quick" else 10, "big": True}
    name, consts = qcfg("graphs-sim-6x9", **BIG)
    run_config(run, "C08", name + ":FalsyVertex", consts, wd, bigspec, vertex_cls="FalsyVertex",
               simulate="num=20" if tier == "quick" else "num=150", depth=10, seed=seed + 2,
               probe_filter=big_filter(6, 16 if tier == "quick" else 6))
    if tier == "thorough":
        name, consts = qcfg("graphs-4x4-D", NV=4, InitBV=4, NL=4, Kinds={"D"}, OnlyOps={"new"}, AllowNone=False)
        run_config(run, "C08", name + ":Vertex", consts, wd, {"kind": "C08", "seed": seed, "vectors": 6, "big": True},
                   probe_filter=lambda ks: json.loads(ks)["nl"] == 4 and P.h(ks) % 12 == 0)
    deep_stage(run, "C08", wd, 450 if tier == "quick" else 800)
    run.exhaustive = True
    run.assumptions = ASSUME + ["Python values are abstracted into equality classes by the executor (1 == 1.0 == True; equal strings built at run time)"]
    mandatory = [lambda c: "matches2" in c, lambda c: "startmatch" in c, lambda c: "uni=part" in c,
                 lambda c: "absent1" in c and "matches1" in c, lambda c: c.startswith("dfsr:")]
    return run.finish(nontrivial_filter=lambda c: "matches0" not in c, mandatory=mandatory)


CHECKS = {"C04": c04, "C09": c09, "C06": c06, "C07": c07, "C08": c08}
