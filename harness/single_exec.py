"""E2 for C17 / C18: replay call sequences on FRESH singleton classes (the metaclass tables are global
state) and log what every public call returned.  No expectations."""
from __future__ import annotations

ARGS = {1: ((-1,), {}), 2: ((-2,), {}), 3: ((1,), {}), 4: ((1.0,), {}), 5: ((), {"x": 1, "y": 2}),
        6: ((), {"y": 2, "x": 1}), 7: ((), {"x": -1}), 8: ((13,), {}),
        9: ((), {"x": [1, 2]})}         # an unhashable keyword value: the documented default key function copes      # 13: the harness classes' __init__ raises


def parity(args, kwargs):
    x = args[0] if args else kwargs.get("x", 0)
    return (x if isinstance(x, (int, float)) else len(x)) % 2


def fresh_classes():
    from edgegraph.structure import singleton as sg
    sg.clear_true_singleton()

    import weakref
    created = []           # weak references to every instance whose __init__ got past its checks, in that order (= the
                           # model's numbering).  WEAK: client code does not keep every instance it ever got either
                           # (Cls(k).x = 1; ... Cls(k).x) - keeping them alive is the registry's job
    keep = {"numbers": set(), "held": []}       # instances a later event names explicitly are held like a client would

    class Rec:
        def __init__(self, *args, **kwargs):
            if args and args[0] == 13:
                raise ValueError("unlucky argument")         # a construction that fails
            if not any(x() is self for x in created):
                created.append(weakref.ref(self))
                if len(created) in keep["numbers"]:
                    keep["held"].append(self)
            d = self.__dict__
            d["inits"] = d.get("inits", 0) + 1
            d.setdefault("first", (args, dict(kwargs)))

    class TA(Rec, metaclass=sg.TrueSingleton):
        pass

    class TB(TA):
        def __init__(self, *args, **kwargs):
            sg.clear_true_singleton()   # a constructor that resets the registry first (re-entrant use of the module)
            Rec.__init__(self, *args, **kwargs)

        def __bool__(self):             # an instance that is falsy: identity, not truth value, must decide
            return False

    class TC(Rec, metaclass=sg.TrueSingleton):
        def __init__(self, *args, **kwargs):
            Rec.__init__(self, *args, **kwargs)
            TA(*ARGS[1][0], **ARGS[1][1])        # a singleton that needs another one (App() -> Config()): nested construction

        def __len__(self):              # an "empty container" singleton
            return 0

    M1 = sg.semi_singleton_metaclass()
    M2 = sg.semi_singleton_metaclass(parity)

    class SA(Rec, metaclass=M1):
        pass

    class SB(Rec, metaclass=M1):
        def __bool__(self):
            return False

    class SC(SA):
        pass

    class SD(Rec, metaclass=M2):
        pass

    return {"t": [None, TA, TB, TC], "s": [None, SA, SB, SC, SD], "created": created, "keep": keep}


def arg_id(first):
    for k, v in ARGS.items():
        if (v[0] == first[0] and list(v[1].items()) == list(first[1].items())
                and [type(x) for x in v[0]] == [type(x) for x in first[0]]):
            return k
    return -1


_HANGS = [0]


def replay(events, NI):
    """events: list of {op, a}.  Returns the observed events."""
    from edgegraph.structure import singleton as sg
    import signal
    C = fresh_classes()
    objs = C["created"]          # instance number -> weak reference (order of creation, nested constructions included)
    C["keep"]["numbers"].update(c["a"][0] for c in events if c["op"] == "sadd")
    shadow = {}                  # instance number -> (inits, first) as last seen alive

    class Hang(Exception):
        pass

    def on_alarm(signum, frame):
        raise Hang()
    old_handler = signal.signal(signal.SIGALRM, on_alarm)

    def num(o):
        if o is None:
            return 0
        for j, x in enumerate(objs):
            if x() is o:
                return j + 1
        import weakref
        objs.append(weakref.ref(o))
        return len(objs)

    def cls_of(o):
        for kind in ("t", "s"):
            for ix, c in enumerate(C[kind]):
                if c is not None and type(o) is c:
                    return kind, ix
        return "?", -1

    out = []
    for c in events:
        op, a = c["op"], c["a"]
        res = {"err": "", "inst": 0, "cls": 0, "kind": "", "out": []}
        # a call that never returns (e.g. a non-reentrant lock around a nested construction): generous the first times,
        # short once this worker process has seen calls hang (thousands of traces would otherwise wait in turn)
        signal.alarm(10 if _HANGS[0] < 2 else 1)
        try:
            r = None
            if op == "tnew":
                args, kw = ARGS[a[1]]
                r = C["t"][a[0]](*args, **kw)
            elif op == "tclear":
                sg.clear_true_singleton(C["t"][a[0]] if a[0] else None)
            elif op == "snew":
                args, kw = ARGS[a[1]]
                r = C["s"][a[0]](*args, **kw)
            elif op == "sadd":
                args, kw = ARGS[a[1]]
                sg.add_mapping(objs[a[0] - 1](), *args, **kw)
            elif op == "sdrop":
                args, kw = ARGS[a[1]]
                sg.drop_semi_singleton_mapping(C["s"][a[0]], *args, **kw)
            elif op == "scheck":
                args, kw = ARGS[a[1]]
                r = sg.check_semi_singleton_entry_exists(C["s"][a[0]], *args, **kw)
            elif op == "sgetall":
                res["out"] = sorted({num(x) for x in sg.get_all_semi_singleton_instances(C["s"][a[0]])})
            elif op == "sclear":
                sg.clear_semi_singleton(C["s"][a[0]])
            else:
                raise RuntimeError(op)
            if r is not None:
                res["inst"] = num(r)
                res["kind"], res["cls"] = cls_of(r)
        except Exception as exc:
            res["err"] = type(exc).__name__
            if isinstance(exc, Hang):
                _HANGS[0] += 1
        finally:
            signal.alarm(0)
        r = None                    # the caller lets go of what it got
        inits = [0] * NI
        args_ = [0] * NI
        for j, ref in enumerate(objs[:NI]):
            o = ref()
            if o is not None:
                shadow[j] = (getattr(o, "inits", 0), arg_id(getattr(o, "first", ((), {}))))
            o = None
            inits[j], args_[j] = shadow.get(j, (0, 0))
        out.append({"c": c, "res": res, "inits": inits, "args": args_, "extra_objects": max(0, len(objs) - NI)})
        if res["err"] == "Hang":
            break               # whatever was blocked may still hold its lock: nothing after this point is meaningful
    signal.signal(signal.SIGALRM, old_handler)
    sg.clear_true_singleton()
    return out
