"""Mechanism-level observation (informational): which internal methods the real code enters, in order, while
it executes one public call.  Wrappers are installed from the outside for the duration of the call only."""
from __future__ import annotations

import contextlib

IMPL_OPS = {"new", "setv", "vadd", "vrem", "ladd", "lunl", "uadd", "urem", "oadd", "orem", "setlaws", "setapp"}


@contextlib.contextmanager
def tracing(w, log):
    from edgegraph.structure import Vertex, Universe, Link, TwoEndedLink
    from edgegraph.structure.universe import UniverseLaws

    def nl(e):
        return w.lnum.get(id(e), w.nl + 1)          # a link under construction is the next slot

    def uix(u):
        return w.n_obj(u) - w.NV

    saved = []

    def wrap(cls, name, describe):
        orig = cls.__dict__[name]

        def wrapper(self, *a, **kw):
            try:
                log.append(describe(self, *a, **kw))
            except Exception:
                log.append(["?", []])
            return orig(self, *a, **kw)
        saved.append((cls, name, orig))
        setattr(cls, name, wrapper)

    def wrap_prop(cls, name, describe):
        prop = cls.__dict__[name]

        def fset(self, value):
            try:
                log.append(describe(self, value))
            except Exception:
                log.append(["?", []])
            return prop.fset(self, value)
        saved.append((cls, name, prop))
        setattr(cls, name, property(prop.fget, fset))

    wrap(Vertex, "add_to_link", lambda s, l: ["vadd", [w.n_obj(s), nl(l)]])
    wrap(Vertex, "remove_from_link", lambda s, l: ["vrem", [w.n_obj(s), nl(l)]])
    wrap(Link, "add_vertex", lambda s, v: ["ladd", [nl(s), w.n_obj(v)]])
    wrap(Link, "unlink_from", lambda s, v: ["lunl", [nl(s), w.n_obj(v)]])
    wrap(TwoEndedLink, "_set_v1", lambda s, v: ["setv", [nl(s), 1, w.n_obj(v)]])
    wrap(TwoEndedLink, "_set_v2", lambda s, v: ["setv", [nl(s), 2, w.n_obj(v)]])
    wrap(Universe, "add_vertex", lambda s, v: ["uadd", [uix(s), w.n_obj(v)]])
    wrap(Universe, "remove_vertex", lambda s, v: ["urem", [uix(s), w.n_obj(v)]])
    wrap(Vertex, "add_to_universe", lambda s, u: ["oadd", [w.n_obj(s), uix(u)]])
    wrap(Vertex, "remove_from_universe", lambda s, u: ["orem", [w.n_obj(s), uix(u)]])
    wrap_prop(Universe, "laws", lambda s, L: ["setlaws", [uix(s), w.n_law(L)]])
    wrap_prop(UniverseLaws, "applies_to", lambda s, u: ["setapp", [w.n_law(s), w.n_obj(u)]])
    try:
        yield
    finally:
        for cls, name, orig in reversed(saved):
            setattr(cls, name, orig)


def apply_traced(w, c):
    log = []
    try:
        cm = tracing(w, log)
        cm.__enter__()
    except Exception:           # private structure changed: observe nothing (informational stage only)
        return w.apply(c), [["untraceable", []]]
    try:
        res = w.apply(c)
    finally:
        cm.__exit__(None, None, None)
    if c["op"] == "new":
        log.insert(0, ["new", list(c["a"])])
    return res, log
