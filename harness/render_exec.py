"""E2 for C14 / C15 / C16: run the real renderers in a world state and parse the output back into the
abstract form spec/EGRender.tla talks about.  The parsers are trusted code; no expectations here."""
from __future__ import annotations

import copy
import itertools
import re

from edgegraph.structure import Vertex, Universe, DirectedEdge, UnDirectedEdge, TwoEndedLink

from . import probes as P, world as W


class _VMixin:
    """a plain mix-in placed first: options of the nearest configured class along the MRO apply"""


class SubSubVertex(_VMixin, P.SubVertex):
    """its str() and format() differ from its repr(): a default rendering "by repr" must use repr"""

    def __str__(self):
        return "a vertex"

    def __format__(self, spec):
        return "a formatted vertex"


P.VERTEX_CLASSES["SubSubVertex"] = SubSubVertex
P.VERTEX_CLASSES["mixed"] = [Vertex, P.SubVertex, SubSubVertex]


def _same_uid(cls):
    """factory: every vertex gets the SAME explicit uid (uids are caller-supplied and nothing enforces uniqueness;
    identity, not uid, is what tells vertices apart)"""
    def make(**kw):
        return cls(uid=424242, **kw)
    return make


P.VERTEX_CLASSES["mixed-sameuid"] = [_same_uid(Vertex), _same_uid(P.SubVertex), _same_uid(SubSubVertex)]


def sequences(n):
    """every ordered member list over vertices 1..n (all subsets, all orders), incl. the empty one"""
    out = [()]
    for r in range(1, n + 1):
        out.extend(itertools.permutations(range(1, n + 1), r))
    return out


LABEL_STYLES = ["n{}", "n{} ", "n{},"]       # plain, ending in a blank, ending in a comma


def label(n, style=0):
    return LABEL_STYLES[style].format(n)


# ---- C16 ------------------------------------------------------------------------------------
def plain_probe(w, S, M, sorted_, default_repr, rankmode, style=0):
    from edgegraph.output import plaintext
    NO = len(S["vl"])
    if rankmode == 0:
        rank = [NO - o for o in range(1, NO + 1)]     # descending object number
    else:
        rank = [((o * 7) % (NO + 3)) * 2 + 1 for o in range(1, NO + 1)]
        if len(set(rank)) < len(rank):
            rank = list(range(1, NO + 1))
    rank0 = 1000
    uni = Universe(vertices=[w.o(n) for n in M])
    lab = {}
    objs = [None] + [o for o in w.O if o is not None]
    if default_repr:
        rfunc = None
        for ob in objs:
            lab[repr(ob)] = w.n_obj(ob)
    else:
        rfunc = lambda v: label(w.n_obj(v), style)
        for ob in objs:
            lab[label(w.n_obj(ob), style)] = w.n_obj(ob)
    key = (lambda v: rank0 if v is None else rank[w.n_obj(v) - 1]) if sorted_ else None
    res = {"err": "", "none": False, "wellformed": True, "lines": []}
    try:
        text = plaintext.basic_render(uni, rfunc=rfunc, sort=key)
    except Exception as exc:
        res["err"] = type(exc).__name__
        text = None
    else:
        if text is None:
            res["none"] = True
        else:
            res.update(parse_plain(text, lab))
    return {"kind": "plain", "S": S, "M": list(M), "sorted": bool(sorted_), "rank": rank, "rank0": rank0,
            "default_repr": bool(default_repr), "style": style, "res": res, "text": text}


def parse_plain(text, lab):
    lines, well = [], isinstance(text, str)
    for line in (text.split("\n") if well else []):
        if " -> " in line:
            head, rest = line.split(" -> ", 1)
            nbs = rest.split(", ") if rest != "" else []
        elif line.rstrip().endswith(" ->"):
            head, nbs = line.rstrip()[:-3], []
        else:
            head, nbs, well = line, [], False
        if head not in lab or any(x not in lab for x in nbs):
            well = False
        lines.append({"head": lab.get(head, -1), "nbs": [lab.get(x, -1) for x in nbs]})
    return {"wellformed": well, "lines": lines}


# ---- C14 ------------------------------------------------------------------------------------
def puml_options(variant, title_tag):
    """returns (options dict for the real call, abstract opts for the spec)"""
    from edgegraph.output import plantuml
    o = copy.deepcopy(plantuml.PLANTUML_RENDER_OPTIONS)
    vtypes = {"Vertex": "object"}
    arrows = {"D": ["", ">"], "U": ["", ""]}
    if variant >= 1:
        o[P.SubVertex] = dict(copy.deepcopy(o[Vertex]), type="class")
        o[W.D2] = {"v1side": "o", "v2side": ">>"}
        vtypes["SubVertex"] = "class"
        arrows["D2"] = ["o", ">>"]
    if variant >= 2:
        o[TwoEndedLink] = {"v1side": "<", "v2side": ">"}
        o[W.U2] = {"v1side": "*", "v2side": ""}
        o[SubSubVertex] = dict(copy.deepcopy(o[Vertex]), type="entity")
        arrows["T"] = ["<", ">"]
        arrows["U2"] = ["*", ""]
        vtypes["SubSubVertex"] = "entity"
    if title_tag:
        # every configured class has its OWN title format: a title is only right if it was computed with the
        # options of the vertex's own nearest configured class
        for cls, fmt in ((Vertex, "t{tag}"), (P.SubVertex, "s{tag}"), (SubSubVertex, "x{tag}")):
            if cls in o:
                o[cls]["show_attrs"] = ["tag"]
                o[cls]["title_format"] = fmt
    return o, {"vtypes": vtypes, "arrows": arrows}


def own_title(ob, n, options):
    """the title the vertex must get: format of its nearest configured class"""
    for cls in type(ob).__mro__:
        if cls in options:
            return options[cls]["title_format"].replace("{tag}", str(n))
    return None


DECL = re.compile(r"^(\w+) (\S+) <<(\w+)>> \{$")
REL = re.compile(r"^(\S+) (\S*)--(\S*) (\S+)$")


def puml_probe(w, S, M, variant, title_tag, table=None):
    """`table`: ONE caller-side option table that is kept between renders and only ever grows / has entries
    replaced (how client code configures more classes later); the render must honour its content at call time"""
    from edgegraph.output import plantuml
    uni = Universe(vertices=[w.o(n) for n in M])
    objs = [o for o in w.O[:w.NV + 1] if o is not None]
    for ob in objs:
        ob.tag = w.n_obj(ob)
    options, opts = puml_options(variant, title_tag)
    if table is not None:
        table["opts"].update(options)
        options = table["opts"]
        table["hist"].append([variant, int(bool(title_tag))])
    titles = {(own_title(ob, w.n_obj(ob), options) if title_tag else hex(id(ob))): w.n_obj(ob) for ob in objs}
    res = {"err": "", "none": False, "framed": False, "decls": [], "rels": []}
    text = None
    try:
        text = plantuml.render_to_plantuml_src(uni, options)
    except Exception as exc:
        res["err"] = type(exc).__name__
    else:
        if text is None:
            res["none"] = True
        else:
            res["framed"] = text.startswith("@startuml\n") and text.endswith("@enduml\n") and text.count("@startuml") == 1 and text.count("@enduml") == 1
            for line in text.split("\n"):
                m = DECL.match(line)
                if m:
                    res["decls"].append({"type": m.group(1), "v": titles.get(m.group(2), -1), "cls": m.group(3)})
                    continue
                m = REL.match(line)
                if m and (m.group(1) in titles or m.group(4) in titles):
                    res["rels"].append({"a": titles.get(m.group(1), -1), "l": m.group(2), "r": m.group(3),
                                        "b": titles.get(m.group(4), -1)})
    for ob in objs:
        del ob.tag
    vcls = [type(o).__name__ if o is not None else "" for o in w.O[1:]]
    return {"kind": "puml", "S": S, "M": list(M), "vcls": vcls, "opts": opts, "variant": variant,
            "title_tag": bool(title_tag), "res": res,
            # with the default show_attrs every dir() entry of every vertex is printed (docstrings included): tens of
            # kilobytes per rendering, parsed here in the worker; only the head travels on (samples, replay files)
            "text": None if text is None else text[:1500] + ("..." if len(text) > 1500 else ""),
            "grown": [] if table is None else list(table["hist"])}     # the renders made with this table object, this one last


# ---- C15 ------------------------------------------------------------------------------------
def pyvis_probe(w, S, M, customizable, with_refunc, extra_attr):
    from edgegraph.output import pyvis as EP
    uni = Universe(vertices=[w.o(n) for n in M])
    objs = [o for o in w.O if o is not None]
    if extra_attr:
        for ob in objs:
            ob.colour = "red"
            ob.i = 99
    labels = [label(n) for n in range(1, len(S["vl"]) + 1)]
    rv = lambda v: label(w.n_obj(v))
    rf = (lambda e: f"e{w.n_link(e)}") if with_refunc else None
    res = {"err": "", "nodes": [], "edges": []}
    try:
        # the caller's own Network options: whatever is asked for the network as a whole, arrows are per link
        nk = (None, {"directed": True}, {"directed": False}, {"heading": "g"})[P.h(S["ends"], M, "nk") % 4]
        if customizable:
            net = EP.pyvis_render_customizable(uni, rvfunc=rv, refunc=rf)
        else:
            net = EP.make_pyvis_net(uni, rvfunc=rv, refunc=rf, network_kwargs=nk)
        for nid in net.get_nodes():
            res["nodes"].append({"id": nid if isinstance(nid, int) else -1, "label": str(net.get_node(nid).get("label"))})
        for e in net.get_edges():
            res["edges"].append({"f": e.get("from", -1), "t": e.get("to", -1), "arrow": e.get("arrows") == "to"})
    except Exception as exc:
        res["err"] = type(exc).__name__
    if extra_attr:
        for ob in objs:
            del ob.colour
            del ob.i
    return {"kind": "pyvis", "S": S, "M": list(M), "labels": labels, "customizable": bool(customizable),
            "extra_attr": bool(extra_attr), "res": res}


def run(w, S, spec):
    """all renderer probes for one world state"""
    kind = spec["kind"]
    n = S["bv"]
    if not all(P.qdom(S, v) for v in range(1, n + 1)):
        return []
    out = []
    hv = P.h(S["ends"], S["vl"], spec.get("seed", 0))
    seqs = sequences(n)
    if spec.get("big"):
        # big pools: the full member list in two orders plus a hash-chosen sample of the other ordered subsets
        full = tuple(range(1, n + 1))
        rest = sorted((m for m in seqs if len(m) not in (0, n)), key=lambda m: P.h(hv, m))[:10]
        seqs = [(), full, tuple(reversed(full))] + rest
    for mi, M in enumerate(seqs):
        if kind == "C16":
            for sorted_, dflt in itertools.product((0, 1), (0, 1)):
                out.append(plain_probe(w, S, M, sorted_, dflt, (hv + mi) % 2, style=(hv + mi + sorted_) % 3))
        elif kind == "C14":
            if any(0 in en for en in S["ends"][:S["nl"]]):
                continue
            table = {"opts": {}, "hist": []} if mi % 2 == 0 else None         # every other member list: one table object grown between the renders
            for variant in range(3):
                out.append(puml_probe(w, S, M, variant, (hv + mi + variant) % 2, table))
        elif kind == "C15":
            out.append(pyvis_probe(w, S, M, (hv + mi) % 3 == 0, (hv + mi) % 2, (hv + mi) % 5 == 0))
    return out


def render_class(r):
    S, M = r["S"], r["M"]
    nl = S["nl"]
    inside = [e for e in range(nl) if len(S["ends"][e]) == 2 and all(x in M for x in S["ends"][e])]
    shape = []
    if any(S["ends"][e][0] == S["ends"][e][1] for e in inside):
        shape.append("selfloop")
    if len({tuple(sorted(S["ends"][e])) for e in inside}) < len(inside):
        shape.append("parallel")
    if len({S["kind"][e] for e in inside}) > 1:
        shape.append("mixedkinds")
    if any(len(S["ends"][e]) == 2 and (S["ends"][e][0] in M) != (S["ends"][e][1] in M) for e in range(nl)):
        shape.append("leaving")
    if any(not any(v in S["ends"][e] for e in inside) for v in M):
        shape.append("isolated")
    kinds = "+".join(sorted({S["kind"][e] for e in inside})) or "-"
    base = f"{r['kind']}:members{len(M)},{'+'.join(shape) or 'plain'},kinds={kinds}"
    if r["kind"] == "plain":
        return base + f",sorted{int(r['sorted'])},repr{int(r['default_repr'])}"
    if r["kind"] == "puml":
        return base + f",opts{r['variant']},title{'tag' if r['title_tag'] else 'id'},classes={'+'.join(sorted({r['vcls'][v - 1] for v in M})) or '-'}"
    return base + f",custom{int(r['customizable'])},extra{int(r['extra_attr'])}"
