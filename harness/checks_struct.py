"""C01, C02, C03, C19 -- structural properties (spec/EGStructure.tla)."""
from __future__ import annotations

import json
import os

from . import structural as ST, explore, world as W
from .common import Run, Machinery

ASSUME_COMMON = [
    "objects are observed through public accessors only (links, vertices, universes, laws, applies_to, type)",
    "exhaustive over the stated object pool; larger pools are sampled by tlc -simulate only",
    "TLC (tla2tools 1.8) evaluates the specification correctly; the Python executor holds no expectations",
]


def inductive(run, wd, part):
    """TLC: the invariants are INDUCTIVE under the reference semantics - every call taken from EVERY type-correct
    state that satisfies them (reachable or not) over a tiny pool leads to a state that satisfies them"""
    from . import tlc
    if part == "links":
        consts = dict(ST.BASE, NV=2, NL=2, Kinds={"D"}, MaxEnds=2, MaxArg=1, DoEmit=False)
        inv = ["InvLinkSym", "InvNoDupLinks", "InvType"]
    else:
        consts = dict(ST.BASE, NV=1, NU=2, NL=0, NLaw=2, Kinds={"D"}, Fams={"uni", "laws"}, InitBV=1, InitBU=2, MaxArg=1, DoEmit=False)
        inv = ["InvUniSym", "InvNoDupMembers", "InvNoDupUnis", "InvLawsSym", "InvType"]
    text = tlc.make_cfg(consts, init="IndInit", next_="Next", constraint="Bound", invariants=inv)
    res = tlc.run_tlc("MC_Ind", text, wd, workers=16, tag=f"inductive-{part}", timeout=1800)
    run.add_model(f"inductiveness:{part}", res, {"from": "all type-correct states satisfying the invariants", "invariants": inv})


def replay_structural(prop, path, wd):
    with open(path) as f:
        rp = json.load(f)
    if rp.get("kind") == "walk":
        from . import walks
        if walks.replay(rp, prop, wd):
            print(f"VIOLATION property={prop} replay={path}  # reproduced: step {rp['step'] + 1} of the history deviates again")
            return 1
        print(f"replay of {path}: property {prop} holds on the current tree")
        return 0
    if rp.get("kind") in ("repo-test", "idiom"):
        from . import repo_traces
        run = Run(prop, "quick", 0)
        sel = rp["test"]
        if rp["kind"] == "idiom":
            sel = os.path.join(os.environ.get("VERIF_ROOT", "/verif"), "idioms", "test_idioms.py") + "::" + rp["test"].split("::")[-1]
        repo_traces.check(run, prop, wd, select=sel)
        if run.violations:
            print(f"VIOLATION property={prop} replay={path}  # reproduced: {run.violations[0]['what'][:200]}")
            return 1
        print(f"replay of {path}: {rp['test']} conforms to the specification on the current tree")
        return 0
    consts = rp["consts"]
    consts = {k: (set(v) if isinstance(v, list) and k in ("Kinds", "Fams") else v) for k, v in consts.items()}
    init = ST.base_state(consts)
    w, _ = explore.replay_path(consts, init, rp["path"] or [], caching=rp.get("caching", False))
    pre = w.project()
    res = w.apply(rp["call"])
    post = w.project()
    rec = {"id": 1, "pre": pre, "c": rp["call"], "res": res, "post": post}
    verdicts = ST.judge(prop, consts, [rec], wd, "replay", shards=1)
    print(json.dumps({"pre": pre, "call": rp["call"], "res": res, "post": post}, indent=1))
    bad = [v for v in verdicts if "fail" in v]
    if bad:
        print(f"VIOLATION property={prop} replay={path}  # reproduced: {bad[0]['fail']}")
        return 1
    print(f"replay of {path}: property {prop} holds on the current tree")
    return 0


def c01(tier, seed, wd, replay):
    if replay:
        return replay_structural("C01", replay, wd)
    run = Run("C01", tier, seed)
    inductive(run, wd, "links")
    run.rule = ("every (state, call, argument aliasing) transition of the bounded EGStructure model is executed on "
                "fresh real objects; LinkSym and NoDupLinks are evaluated by TLC on the real post-state of every call, "
                "including calls that raised; a class = call kind x aliasing pattern of its arguments and pre-state; "
                "non-trivial = the call changed the state or raised")
    configs = [ST.cfg("links-2x2-e2", UseN=False, MaxEnds=2)]
    if tier == "quick":
        configs.append(ST.cfg("links-2x1-e3-N", NL=1, UseN=True, MaxEnds=3, MaxArg=3, Kinds={"D", "T"}))
    else:
        configs.append(ST.cfg("links-2x2-e3-N", UseN=True, MaxEnds=3, Kinds={"D", "U"}))
        configs.append(ST.cfg("links-3x2-e2", NV=3, InitBV=3, MaxEnds=2, Kinds={"D", "U"}))
        configs.append(ST.cfg("links-2x3-e2", NL=3, MaxEnds=2, Kinds={"D"}))
    nontrivial = set()
    for name, consts in configs:
        nt, _ = ST.run_config(run, "C01", name, consts, wd, caching=False)
        nontrivial |= nt
    if tier == "thorough":
        name, consts = configs[0]
        ST.run_config(run, "C01", name, consts, wd, caching=True)
        sim = ST.cfg("links-sim-4x4-e4", NV=4, InitBV=4, NL=4, MaxEnds=4, UseN=True, Kinds={"D", "U", "T", "D2"})
        ST.run_config(run, "C01", sim[0], sim[1], wd, simulate="num=300", depth=30, seed=seed + 1)
    from . import repo_traces as _rt, walks
    _rt.check_idioms(run, "C01", wd)                # usage idioms (/verif/idioms) recorded and judged like the repository's tests
    walks.check(run, "C01", wd, ("links", "mixed"), 60 if tier == "quick" else 600, 40, seed)
    run.exhaustive = True
    run.assumptions = ASSUME_COMMON
    mandatory = [lambda c: c.startswith("setv:") and "self-loop" in c and "new=fresh" in c,
                 lambda c: c.startswith("setv:") and "new=other" in c,
                 lambda c: c.startswith("setv:") and "new=None" in c,
                 lambda c: c.startswith("setv:lost-end"),
                 lambda c: c.startswith("setv:len3"),
                 lambda c: c.startswith("vrem:listed1,occurs2"),
                 lambda c: c.startswith("unlink:") and "self" in c and "joining1" in c]
    return run.finish(nontrivial_filter=lambda c: c in nontrivial, mandatory=mandatory)



def _generic(prop, tier, seed, wd, replay, rule, quick_cfgs, thorough_cfgs, mandatory, sim=None, cached_first=False,
             repo_tests=False, impl_first=False):
    if replay:
        return replay_structural(prop, replay, wd)
    run = Run(prop, tier, seed)
    if prop in ("C02", "C19") and tier == "thorough":
        inductive(run, wd, "unis")
    run.rule = rule
    nontrivial = set()
    cfgs = quick_cfgs if tier == "quick" else thorough_cfgs
    for ci, (name, consts) in enumerate(cfgs):
        nt, _ = ST.run_config(run, prop, name, consts, wd, caching=False, impl=(impl_first and ci == 0))
        nontrivial |= nt
    if repo_tests:
        from . import repo_traces
        repo_traces.check(run, prop, wd)
    from . import repo_traces as _rt, walks
    _rt.check_idioms(run, prop, wd)                 # usage idioms (/verif/idioms) recorded and judged like the repository's tests
    walks.check(run, prop, wd, {"C02": ("unis", "mixed"), "C03": ("links", "unis", "mixed")}.get(prop, ("mixed",)),
                60 if tier == "quick" else 600, 40, seed)
    if prop == "C03":
        from . import base_exec
        base_exec.check(run, wd, seed, tier)       # informational: BaseObject namespace (spec/EGBase.tla)
    if tier == "thorough":
        if cached_first:
            name, consts = cfgs[0]
            ST.run_config(run, prop, name, consts, wd, caching=True)
        if sim:
            ST.run_config(run, prop, sim[0][0], sim[0][1], wd, simulate=sim[1], depth=sim[2], seed=seed + 1)
    run.exhaustive = True
    run.assumptions = ASSUME_COMMON
    return run.finish(nontrivial_filter=lambda c: c in nontrivial, mandatory=mandatory)


UNI = dict(NV=2, NU=2, NL=0, NLaw=2, Fams={"uni", "new"}, InitBV=1, InitBU=1, MaxArg=2)


def c02(tier, seed, wd, replay):
    rule = ("every transition of the bounded universe-membership model (four membership calls from either side, "
            "Vertex(universes=..) and Universe(vertices=..) with every argument sequence incl. repeats, universes as "
            "members of universes and of themselves) is executed on fresh real objects; TLC evaluates UniSym, "
            "NoDupMembers, NoDupUnis on the real post-state and the insertion-order / atomic-raise action clauses on "
            "(pre, post); class = call x membership/aliasing pattern; non-trivial = state changed or call raised")
    quick = [ST.cfg("unis-1v2u", **{**UNI, "NV": 1}), ST.cfg("unis-2v1u", **{**UNI, "NU": 1, "NLaw": 1})]
    # (3 vertices x 2 universes and 1 vertex x 3 universes were tried: >10 million transitions each, TLC ran out of
    # memory printing them; pools of that size are covered by the simulated behaviours below)
    thorough = [ST.cfg("unis-2v2u", **UNI),
                ST.cfg("unis-3v1u", **{**UNI, "NV": 3, "NU": 1, "NLaw": 1, "InitBV": 2})]
    mandatory = [lambda c: c.startswith("urem:member0"), lambda c: c.startswith("orem:member0"),
                 lambda c: "self-member" in c, lambda c: c.startswith("uadd:member1"),
                 lambda c: c.startswith("vnew:") and "dup" in c, lambda c: c.startswith("unew:") and "dup" in c,
                 lambda c: c.startswith("urem:member1") and "inner" in c]
    sim = (ST.cfg("unis-sim-3v3u", **{**UNI, "NV": 3, "NU": 3, "NLaw": 3, "MaxArg": 3}), "num=300", 30)
    return _generic("C02", tier, seed, wd, replay, rule, quick, thorough, mandatory, sim=sim, repo_tests=(tier == "thorough"))


def c03(tier, seed, wd, replay):
    rule = ("Follow mode: for every transition of the bounded model executed on fresh real objects, the complete "
            "projected state after the call and the return value / raise must be one of the outcomes Post(pre, call) "
            "of spec/EGStructure.tla; configurations: links (2 vertices x 2 links x 3 kinds, all calls and aliasings), "
            "n-ary links / 3-entry ends, universes + constructors, and a mixed one where link, universe and laws "
            "calls interleave; additionally the repository's OWN test suite is run under a recorder (harness/recorder.py) and "
            "every structural call its tests make (460 tests, ~13 000 calls) is judged the same way; class = call x "
            "aliasing pattern; non-trivial = state changed or call raised")
    mixed = ST.cfg("mixed-2v1u1l", NV=2, NU=1, NL=1, NLaw=2, Kinds={"D", "U"}, Fams={"link", "expl", "uni", "laws"},
                   InitBV=2, InitBU=1, MaxArg=1)
    quick = [ST.cfg("links-2x2-e2"),
             ST.cfg("links-2x1-e3-N", NL=1, UseN=True, MaxEnds=3, MaxArg=3, Kinds={"D", "T"}),
             ST.cfg("unis-1v2u", **{**UNI, "NV": 1}), mixed]
    thorough = [ST.cfg("links-2x2-e2"),
                ST.cfg("links-2x2-e3-N", UseN=True, MaxEnds=3, Kinds={"D", "U"}),
                ST.cfg("links-3x2-e2", NV=3, InitBV=3, Kinds={"D", "U"}),
                ST.cfg("links-2x3-e2", NL=3, Kinds={"D"}),
                ST.cfg("unis-2v2u", **UNI), mixed,
                ST.cfg("mixed-2v1u2l-unends", NV=1, NU=1, NL=2, NLaw=1, Kinds={"D", "U"},
                       Fams={"link", "expl", "uni"}, InitBV=1, InitBU=1, UniEnds=True, MaxArg=1)]
    mandatory = [lambda c: c.startswith("link") and "dontdup1" in c and "joining1" in c and "reverse" in c,
                 lambda c: c.startswith("link") and "dontdup1" in c and "self" in c and "joining1" in c,
                 lambda c: c.startswith("unlink:") and "self" in c and "joining1" in c,
                 lambda c: c.startswith("unlink:") and "joining2" in c,
                 lambda c: c.startswith("setv:") and "new=other" in c,
                 lambda c: c.startswith("setv:") and "new=old" in c,
                 lambda c: c.startswith("setv:") and "self-loop" in c and "new=fresh" in c]
    sim = (ST.cfg("links-sim-4x4", NV=4, InitBV=4, NL=4, MaxEnds=2, Kinds={"D", "U", "T", "D2", "U2"}), "num=300", 30)
    return _generic("C03", tier, seed, wd, replay, rule, quick, thorough, mandatory, sim=sim, cached_first=True,
                    repo_tests=True, impl_first=True)


LAWS = dict(NV=0, NU=2, NL=0, NLaw=4, Fams={"laws", "new"}, InitBV=0, InitBU=1, MaxArg=0)


def c19(tier, seed, wd, replay):
    rule = ("every transition of the bounded laws model (Universe.laws = L / None, UniverseLaws.applies_to = u / None "
            "from either side, Universe() and Universe(laws=L) incl. a law set already in use) is executed on fresh "
            "real objects; TLC evaluates LawsSym on the real post-state and that every assignment succeeded; the rule "
            "attributes of law sets are read back and re-assigned by the executor and judged by TLC; class = call x "
            "(current binding, target binding) pattern; non-trivial = state changed or call raised")
    if replay and _is_attr_replay(replay):
        return replay_lawattrs(replay, wd)
    quick = [ST.cfg("laws-2u4L", **LAWS)]
    thorough = [ST.cfg("laws-3u5L", **{**LAWS, "NU": 3, "NLaw": 5})]
    mandatory = [lambda c: c == "setlaws:curNone,newfree" or c == "setlaws:curNone,newinuse",
                 lambda c: c.startswith("setlaws:") and "newinuse" in c,
                 lambda c: c.startswith("setapp:") and "newhaslaws" in c,
                 lambda c: c.startswith("setapp:curset,newNone"),
                 lambda c: c.startswith("unew:") and "lawsinuse" in c]
    if replay:
        return replay_structural("C19", replay, wd)
    run = Run("C19", tier, seed)
    run.rule = rule
    nontrivial = set()
    for name, consts in (quick if tier == "quick" else thorough):
        nt, _ = ST.run_config(run, "C19", name, consts, wd, caching=False)
        nontrivial |= nt
    lawattrs(run, wd, tier)
    from . import repo_traces as _rt, walks
    _rt.check_idioms(run, "C19", wd)
    walks.check(run, "C19", wd, ("laws",), 60 if tier == "quick" else 600, 30, seed)
    run.exhaustive = True
    run.assumptions = ASSUME_COMMON
    return run.finish(nontrivial_filter=lambda c: c in nontrivial or c.startswith("lawattr"), mandatory=mandatory)


def _is_attr_replay(path):
    with open(path) as f:
        return json.load(f).get("kind") == "lawattrs"


def lawattrs(run, wd, tier):
    """placeholder: filled in below"""
    from . import lawattrs as LA
    LA.check(run, wd, tier)


def replay_lawattrs(path, wd):
    from . import lawattrs as LA
    return LA.replay(path, wd)


CHECKS = {"C01": c01, "C02": c02, "C03": c03, "C19": c19}
