"""C01, C02, C03, C19 -- structural properties (spec/EGStructure.tla)."""
from __future__ import annotations

import json

from . import structural as ST, explore, world as W
from .common import Run, Machinery

ASSUME_COMMON = [
    "objects are observed through public accessors only (links, vertices, universes, laws, applies_to, type)",
    "exhaustive over the stated object pool; larger pools are sampled by tlc -simulate only",
    "TLC (tla2tools 1.8) evaluates the specification correctly; the Python executor holds no expectations",
]


def replay_structural(prop, path, wd):
    with open(path) as f:
        rp = json.load(f)
    consts = rp["consts"]
    consts = {k: (set(v) if isinstance(v, list) and k in ("Kinds", "Fams") else v) for k, v in consts.items()}
    init = ST.base_state(consts)
    w, _ = explore.replay_path(consts, init, rp["path"] or [], caching=rp.get("caching", False))
    pre = w.project()
    res = w.apply(rp["call"])
    post = w.project()
    rec = {"id": 1, "pre": pre, "c": rp["call"], "res": res, "post": post}
    verdicts = ST.judge(prop, consts, [rec], wd, "replay", shards=1)
    print(json.dumps({"pre": pre, "call": rp["call"], "res": res, "post": post}, indent=1))
    bad = [v for v in verdicts if "fail" in v]
    if bad:
        print(f"VIOLATION property={prop} replay={path}  # reproduced: {bad[0]['fail']}")
        return 1
    print(f"replay of {path}: property {prop} holds on the current tree")
    return 0


def c01(tier, seed, wd, replay):
    if replay:
        return replay_structural("C01", replay, wd)
    run = Run("C01", tier, seed)
    run.rule = ("every (state, call, argument aliasing) transition of the bounded EGStructure model is executed on "
                "fresh real objects; LinkSym and NoDupLinks are evaluated by TLC on the real post-state of every call, "
                "including calls that raised; a class = call kind x aliasing pattern of its arguments and pre-state; "
                "non-trivial = the call changed the state or raised")
    configs = [ST.cfg("links-2x2-e2", UseN=False, MaxEnds=2)]
    if tier == "quick":
        configs.append(ST.cfg("links-2x1-e3-N", NL=1, UseN=True, MaxEnds=3, MaxArg=3, Kinds={"D", "T"}))
    else:
        configs.append(ST.cfg("links-2x2-e3-N", UseN=True, MaxEnds=3))
        configs.append(ST.cfg("links-3x2-e2", NV=3, InitBV=3, MaxEnds=2, Kinds={"D", "U"}))
        configs.append(ST.cfg("links-2x3-e2", NL=3, MaxEnds=2, Kinds={"D", "T"}))
    nontrivial = set()
    for name, consts in configs:
        recs, _ = ST.run_config(run, "C01", name, consts, wd, caching=False)
        for r in recs:
            if r["pre"] != r["post"] or r["res"]["err"]:
                nontrivial.add(r["cls"])
    if tier == "thorough":
        name, consts = configs[0]
        ST.run_config(run, "C01", name, consts, wd, caching=True)
        sim = ST.cfg("links-sim-4x4-e4", NV=4, InitBV=4, NL=4, MaxEnds=4, UseN=True, Kinds={"D", "U", "T", "D2"})
        ST.run_config(run, "C01", sim[0], sim[1], wd, simulate="num=300", depth=30, seed=seed + 1)
    run.exhaustive = True
    run.assumptions = ASSUME_COMMON
    mandatory = [lambda c: c.startswith("setv:") and "self-loop" in c and "new=fresh" in c,
                 lambda c: c.startswith("setv:") and "new=other" in c,
                 lambda c: c.startswith("setv:") and "new=None" in c,
                 lambda c: c.startswith("setv:lost-end"),
                 lambda c: c.startswith("setv:len3"),
                 lambda c: c.startswith("vrem:listed1,occurs2"),
                 lambda c: c.startswith("unlink:") and "self" in c and "joining1" in c]
    return run.finish(nontrivial_filter=lambda c: c in nontrivial, mandatory=mandatory)


CHECKS = {"C01": c01}
