"""Regenerates /verif/MANIFEST.json from the table below (run by hand: python -m harness.manifest)."""
import json

PY = "/venv/bin/python /verif/check.py"
TRUST = ("TLC 1.8 and the TLA+ modules in /verif/spec; the Python executor (harness/world.py) that performs the "
         "calls and projects real objects through public accessors; bounds: exhaustive over the stated small pools, "
         "larger pools only sampled by tlc -simulate")

CHECKS = {
 "C01": ("model_checking", "6 C01",
         "TLC enumerates every reachable state and every public call with every argument aliasing of the bounded "
         "EGStructure model (2-3 vertices + None, 1-3 link slots, 3-4 link kinds, end lists up to 3 entries, n-ary links), "
         "checks LinkSym/NoDupLinks on the model, and every generated transition is executed on fresh real objects; TLC "
         "then evaluates the same invariants on the real post-state of every call (also calls that raised). Exhaustive "
         "over the pool, hence over histories of any length on it; counter-examples to this kind of guard bug need <=3 "
         "vertices and <=2 links.",
         "TLC model checking + trace validation (adopt + invariant)"),
 "C02": ("model_checking", "6 C02",
         "Same pipeline over the universe-membership part: the four membership calls from either side and both "
         "constructors with every argument sequence (repeats included) over 1-3 vertices and 1-3 universes that may contain "
         "each other and themselves; UniSym/NoDupMembers/NoDupUnis judged by TLC on every real post-state, insertion "
         "order and atomic raise on every (pre, post).",
         "TLC model checking + trace validation (adopt + invariant, action clauses)"),
 "C03": ("model_checking", "6 C03",
         "Follow mode: every transition of the link, n-ary, universe and mixed configurations is executed and the complete "
         "projected real state plus return value / raise must be a member of Post(pre, call), the outcome set of the "
         "reference semantics in spec/EGStructure.tla (singleton wherever the statement fixes the outcome).",
         "TLC model checking + trace validation (follow: outcome in Post_op)"),
 "C19": ("model_checking", "6 C19",
         "Every transition of the laws model (2-3 universes x 4-5 law sets, both setters, None, Universe(laws=L) with a law "
         "set in use) executed; LawsSym and 'assignment succeeds' judged by TLC on real states; rule attributes read back / "
         "re-assigned for a menu of constructor arguments and judged by spec/EGLaws.tla.",
         "TLC model checking + trace validation (adopt + invariant)"),
 "C04": ("model_checking", "6 C04",
         "In every graph state the API can reach over the pool (2-3 vertices, 2-3 links, directed / undirected / other two-ended "
         "kinds and subclasses, self-loops, parallel and half-assigned edges, every links order) neighbors() is called on the real "
         "objects for all 3 x 3 x 6 (direction, handling, filter) settings and TLC compares every answer with EGQueries!Nb; TLC also "
         "checks the FORWARD/BACKWARD duality lemma on the model and on the logged answers.",
         "TLC model checking of lemmas + trace validation (answer = operator)"),
 "C06": ("model_checking", "6 C06",
         "All three traversals and generator forms run on the real objects in every fully assigned graph state over the pool, for "
         "every universe (None / every subset) x start x direction x handling (+ sampled filters); TLC compares with the traversal "
         "operators and separately proves on every lemma graph that those list exactly the reachable in-universe set once each. "
         "Generator forms additionally as step machines interleaved with structural calls (spec/EGLazy.tla: every interleaving "
         "model-checked; TLC behaviours as schedules and random histories of real generators followed by JudgeLazy).",
         "TLC model checking of lemmas + trace validation (answer = operator)"),
 "C07": ("model_checking", "6 C07",
         "Same executions judged element by element for order against the loop-mirroring operators; TLC shows on every lemma graph "
         "that the bft operator is a BFS level order and the dft_recursive operator the canonical pre-order.",
         "TLC model checking of lemmas + trace validation (sequence equality)"),
 "C08": ("model_checking", "6 C08",
         "bfs / dfs_recursive / dfs_iterative run on the real objects over all small graphs x sampled attribute assignments x "
         "universes x starts x sought values, for Vertex subclasses including falsy ones; TLC compares with the first match of the "
         "corresponding traversal operator and proves the search-loop mirrors equal that specification on the lemma graphs.",
         "TLC model checking of lemmas + trace validation (answer = operator)"),
 "C09": ("model_checking", "6 C09",
         "find_links() called on the real objects for every ordered pair (incl. a is b) x flag x handling x 5 filters in every graph "
         "state incl. post-unlink states; compared by TLC with EGQueries!FindLinks; agreement with neighbors() multiplicity re-checked "
         "on logged answers; UnlinkEmpties lemma checked on the model.",
         "TLC model checking of lemmas + trace validation (answer = operator)"),
 "C05": ("model_checking", "6 C05",
         "TLC checks coherence and transparency of the memo on EGCache over all interleavings of structural calls, queries and flag "
         "toggles (and that the unrepaired invalidation rule fails); every structural transition is executed on real objects with all "
         "memos kept warm along the path, under three flag schedules, and every cached answer afterwards is compared by TLC with the "
         "operator on the real post-state; behaviours generated from the specification by tlc -simulate are replayed as well.",
         "TLC model checking + trace validation (cached answer = operator on real state)"),
 "C11": ("model_checking", "6 C11",
         "TLC enumerates load_adj_dict / load_adj_matrix with every input over the pool (key order, empty rows, self / repeated "
         "entries, duplicate side entries, every 0/1 matrix and every ragged or wrong-size shape) from pre-states with prior "
         "links, proves the read-back lemmas for each, and every call is executed on real objects: the complete real state must "
         "equal the specified one (universe order, new links' kind / ends / creation order, prior structure untouched, ValueError "
         "and nothing touched on bad shapes).",
         "TLC model checking of lemmas + trace validation (follow)"),
 "C20": ("model_checking", "6 C20",
         "The random module is modelled as non-determinism: TLC visits every randint draw sequence for counts 1..5/6 x connectivity "
         "grid + default x ensurelink, checks that the sample always fits the population and the post-condition over all samples "
         "(small counts); every draw sequence is played into the real randgraph via a scripted randint, plus a seed sweep with the "
         "real generator (twice per seed); TLC judges no-raise, RandGraphPost, result = load_adj_dict(samples), reproducibility.",
         "TLC model checking (RNG as nondeterminism) + trace validation"),
 "C14": ("model_checking", "6 C14",
         "render_to_plantuml_src run on real objects in every fully assigned graph state over the pool (mixed vertex classes) for every "
         "ordered member list x 3 option tables x 2 title formats; output parsed back; TLC compares declarations (bag) and relation "
         "lines (bag, orientation, arrow ends by nearest configured class) with EGRender. Informational stage: render_to_image / "
         "is_plantuml_installed against a fake PlantUML command in every failure mode (spec/EGImage.tla).",
         "TLC-evaluated specification + trace validation (parsed output = operator)"),
 "C15": ("model_checking", "6 C15",
         "make_pyvis_net / pyvis_render_customizable run on real objects for every ordered member list in every graph state over the "
         "pool; nodes / edges read back; TLC evaluates EGRender!PyvisOK.",
         "TLC-evaluated specification + trace validation"),
 "C16": ("model_checking", "6 C16",
         "basic_render run on real objects for every ordered member list x sorted / unsorted x rfunc / repr in every graph state over "
         "the pool; text parsed back; TLC compares with EGRender!PlainLines (which is built on EGQueries!Nb).",
         "TLC-evaluated specification + trace validation (parsed output = operator)"),
 "C17": ("model_checking", "6 C17",
         "TLC enumerates every interleaving of the seven semi-singleton operations over four classes (two sharing a metaclass object, a "
         "subclass, one with a custom key function) and an argument menu with equal-hash / equal-value / permuted-keyword cases, checks "
         "the isolation, injectivity and no-creation properties on the model, and every (state, call) is replayed with its path on "
         "fresh real classes; TLC follows each trace with hidden state (returned identity, exact class, __init__ runs / arguments).",
         "TLC model checking + trace validation with hidden state"),
 "C18": ("model_checking", "6 C18",
         "TLC enumerates every interleaving of constructions and targeted / global clears over a parent, its subclass and an unrelated "
         "class, checks OnePerClass / InitOnce / SameUntilCleared / ClearIsTargeted, and every (state, call) is replayed with its path "
         "on fresh real classes and followed by TLC with hidden state.",
         "TLC model checking + trace validation with hidden state"),
 "C12": ("model_checking", "6 C12",
         "Every container handed out by an accessor or query and every container passed to a constructor / builder is mutated in nine "
         "ways on real objects in graph states over the pool, caching off and on; snapshots (structure + vars of every object) and the "
         "complete table of later query answers before / after are compared by TLC (the specification: such a client step is a stutter).",
         "TLA+ stutter specification + trace validation (snapshot equality judged by TLC)"),
 "C13": ("model_checking", "6 C13",
         "TLC checks the PyVis tag/emit/untag mechanism with a fault point at every callback invocation (and that the unrepaired "
         "mechanism fails); every read-only entry point is run on real objects with each callback raising at its k-th invocation for "
         "every k, snapshots around the call and the answer of a repeated call judged by TLC; caching off and on.",
         "TLC model checking (fault points) + trace validation (fault enumeration over callback invocations)"),
 "C10": ("model_checking", "6 C10",
         "TLC checks the deferred-save queue (EGPickle) on every object graph with 3 objects (4 in the thorough tier) incl. sharing, "
         "cycles and self-references (prefix / final equality with the recursive stream, memo order) and refutes the wrong splice "
         "order; the real lazy pickler's effect order is validated by TLC against the specified queue algorithm run on the emission "
         "tree of the recursive reference pickler; round trips (all protocols, pickle / dill, same process and fresh interpreter, "
         "caching on/off on either side) are judged for isomorphism of structure, order, classes, uids, attributes and sharing, the "
         "history is continued on the copy under the C03 judge, and graphs far deeper than the recursion limit are serialised.",
         "TLC model checking (queue mechanism) + trace validation of the real pickler's effects + round-trip judging"),
}

NOT_YET = {}


def main():
    props = [json.loads(l) for l in open("/verif/properties.jsonl")]
    checks = []
    for p in props:
        pid = p["id"]
        if pid not in CHECKS:
            continue
        cat, ref, text, tech = CHECKS[pid]
        checks.append({
            "property_id": pid,
            "quick_cmd": f"{PY} {pid} --tier quick",
            "thorough_cmd": f"{PY} {pid} --tier thorough",
            "evidence_file": f"/verif/evidence/{pid}.json",
            "replay_cmd_template": f"{PY} {pid} --replay {{path}}",
            "engine": "tlc+executor",
            "level_claimed": {"category": cat, "text": text, "design_ref": f"DESIGN.md section {ref}"},
            "level_note": TRUST,
            "technique": tech,
        })
    na = [{"property_id": p["id"], "reason": NOT_YET.get(p["id"], "check not built yet (work in progress; DESIGN.md section 6 describes the planned procedure)")}
          for p in props if p["id"] not in CHECKS]
    m = {"version": 1,
         "setup_cmd": f"{PY} --setup",
         "hooks": {"guard": "EDGEGRAPH_VERIF",
                   "enable": "no in-repo hooks: everything is observed through the public API or through wrappers/subclasses defined in the harness process",
                   "baseline_off_cmd": "cd /repo && /venv/bin/python -m pytest -ra -q -p no:cacheprovider --timeout=900 --continue-on-collection-errors",
                   "source_commits": [], "add_only": True},
         "engines": [
             {"name": "tlc", "path": "/verif/spec", "serves_properties": sorted(CHECKS),
              "kind_free_text": "TLA+ specification modules; TLC generates transitions (MC_*) and judges recorded observations (Judge*)"},
             {"name": "executor", "path": "/verif/harness", "serves_properties": sorted(CHECKS),
              "kind_free_text": "Python executor replaying TLC-generated calls on real edgegraph objects from /repo's working tree; no expectations"}],
         "checks": checks,
         "not_applicable": na,
         "notes": "fix: commits in /repo are listed in /verif/known_findings.json; see DESIGN.md"}
    json.dump(m, open("/verif/MANIFEST.json", "w"), indent=1)
    print("wrote MANIFEST.json:", len(checks), "checks,", len(na), "pending")


if __name__ == "__main__":
    main()
