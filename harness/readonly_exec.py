"""E2 for C12 (exchanged containers are snapshots) and C13 (read-only operations, with a user callback
raising at its k-th invocation).  Runs experiments on the real objects of a world and records snapshots
around them; spec/JudgeRO.tla decides.  No expectations here."""
from __future__ import annotations

import copy
import hashlib

from edgegraph.structure import Vertex, Universe, DirectedEdge, UnDirectedEdge
from edgegraph.structure.universe import UniverseLaws
from edgegraph.traversal import helpers, breadthfirst, depthfirst

from . import probes as P, world as W


class Boom(Exception):
    pass


def digest(v):
    if isinstance(v, (list, tuple)):
        body = [id(x) if not isinstance(x, (int, float, str, bool, type(None))) else repr(x) for x in v]
        return f"{type(v).__name__}:{body}"
    if isinstance(v, (set, frozenset)):
        return f"{type(v).__name__}:{sorted(id(x) for x in v)}"
    if isinstance(v, dict):
        return f"dict:{[(repr(k) if isinstance(k, (str, int)) else id(k), id(x) if not isinstance(x, (int, float, str, bool, type(None))) else repr(x)) for k, x in v.items()]}"
    if isinstance(v, (int, float, str, bool, type(None))):
        return repr(v)
    return f"{type(v).__name__}@{id(v)}"


def snapshot(w, extra=()):
    objs = [o for o in w.O if o is not None] + [e for e in w.L if e is not None] + list(w.extra_links) \
        + [x for x in w.LAW if x is not None] + list(extra)
    attrs = []
    for ob in objs:
        d = vars(ob)
        attrs.append([[name, hashlib.sha1(digest(d[name]).encode()).hexdigest()[:10]] for name in sorted(d)
                      # a private memo table (a dict under an underscore name, whatever it is called) is not part of
                      # the observable graph: neighbors() legitimately fills one
                      if not (name.startswith("_") and isinstance(d[name], dict))])
    S = w.project()
    S["extra"] = [[w.n_obj(v) for v in x.vertices] if isinstance(x, Universe) else
                  ([w.n_obj(v) for v in x.vertices] if hasattr(x, "vertices") else [])
                  for x in extra]
    S["nextra_links"] = len(w.extra_links)
    return {"S": S, "attrs": attrs}


class Faulty:
    """wraps a callback: counts invocations, raises Boom at the k-th (k = 0: never)"""

    def __init__(self, fn, k=0):
        self.fn, self.k, self.n = fn, k, 0

    def __call__(self, *a, **kw):
        self.n += 1
        if self.n == self.k:
            raise Boom(f"injected at invocation {self.n}")
        return self.fn(*a, **kw)


class Reentrant(Faulty):
    """at its k-th invocation the callback first re-enters the library (self.nested), then answers normally"""

    def __init__(self, fn, nested, k):
        Faulty.__init__(self, fn, 0)
        self.nested, self.at = nested, k

    def __call__(self, *a, **kw):
        self.n += 1
        if self.n == self.at:
            return self.nested(*a, **kw)
        return self.fn(*a, **kw)


def norm(w, x, extra=()):
    """normalise an answer for comparison between runs"""
    if x is None or isinstance(x, (int, float, bool)):
        return repr(x)
    if isinstance(x, str):
        return "\n".join(l for l in x.split("\n") if "edgegraph on " not in l)
    if isinstance(x, (list, tuple)):
        return "[" + ",".join(norm(w, y) for y in x) + "]"
    if isinstance(x, (set, frozenset)):
        return "{" + ",".join(sorted(norm(w, y) for y in x)) + "}"
    if isinstance(x, dict):
        return "{" + ",".join(f"{norm(w, k)}:{norm(w, v)}" for k, v in x.items()) + "}"
    if id(x) in w.num:
        return f"o{w.num[id(x)]}"
    if id(x) in w.lnum:
        return f"l{w.lnum[id(x)]}"
    return type(x).__name__


def norm_map(w, x):
    """normalise a (possibly nested, possibly damaged) mapping"""
    if x is None:
        return "None"
    if hasattr(x, "items"):
        return "{" + ",".join(f"{norm(w, k)}:{norm_map(w, v)}" for k, v in x.items()) + "}"
    return norm(w, x)


def guarded(fn):
    try:
        return fn()
    except Boom:
        return "<Boom>"
    except Exception as exc:
        return f"<{type(exc).__name__}>"


# ------------------------------------------------------------------------------------------------
def ro_operations(w, S, uni):
    """(name, callback names, runner(cbs) -> answer).  Callbacks are given as a dict name -> callable or None."""
    ops = []
    n = S["bv"]
    # every vertex, also one that holds an edge which lost an end (the queries then raise IndexError; what they answer is
    # not specified there, but "however the call then ends, the graph is as before" is)
    vs = list(range(1, n + 1))
    allq = True
    full = P.whole(S)
    lost = not all(P.qdom(S, v) for v in vs)
    yes2 = lambda e, v: True
    yes1 = lambda e: True
    yesv = lambda v: True
    for v in vs:
        for d in (0, 1):
            ops.append((f"neighbors({v},dir{d})", {"filterfunc": yes2},
                        lambda cb, v=v, d=d: helpers.neighbors(w.o(v), direction_sensitive=d, unknown_handling=1,
                                                               filterfunc=cb["filterfunc"])))
        for b in vs[:2]:
            ops.append((f"find_links({v},{b})", {"filterfunc": yes1},
                        lambda cb, v=v, b=b: helpers.find_links(w.o(v), w.o(b), unknown_handling=1,
                                                                filterfunc=cb["filterfunc"])))
    if (full or lost) and n:
        travs = [("bft", breadthfirst.bft), ("dft_recursive", depthfirst.dft_recursive),
                 ("dft_iterative", depthfirst.dft_iterative)]
        gens = [("ibft", breadthfirst.ibft), ("idft_recursive", depthfirst.idft_recursive),
                ("idft_iterative", depthfirst.idft_iterative)]
        for s in vs[:2]:
            for name, fn in travs:
                for u in (None, uni):
                    ops.append((f"{name}({s},{'uni' if u else 'None'})", {"ff_via": yes2, "ff_result": yesv},
                                lambda cb, fn=fn, s=s, u=u: fn(u, w.o(s), direction_sensitive=1, unknown_handling=1,
                                                               ff_via=cb["ff_via"], ff_result=cb["ff_result"])))
            for name, fn in gens:
                def partial(cb, fn=fn, s=s):
                    it = fn(uni, w.o(s), direction_sensitive=1, unknown_handling=1, ff_via=cb["ff_via"],
                            ff_result=cb["ff_result"])
                    first = next(it, None)          # consume one element only, then abandon the generator
                    del it
                    return first
                ops.append((f"{name}-partial({s})", {"ff_via": yes2, "ff_result": yesv}, partial))
        for s in vs[:1]:
            for name, fn in (("bfs", breadthfirst.bfs), ("dfs_recursive", depthfirst.dfs_recursive),
                             ("dfs_iterative", depthfirst.dfs_iterative)):
                ops.append((f"{name}({s})", {}, lambda cb, fn=fn, s=s: fn(uni, w.o(s), "nosuchattr", 1)))
    if allq:
        from edgegraph.output import plaintext, plantuml, pyvis as EP, nrpickler
        lab = lambda v: f"n{w.n_obj(v)}"
        key = lambda v: -1 if v is None else w.n_obj(v)
        ops.append(("basic_render", {"rfunc": lab, "sort": key},
                    lambda cb: plaintext.basic_render(uni, rfunc=cb["rfunc"], sort=cb["sort"])))
        if (full or lost) and not any(k in ("T", "T2", "N") for k in S["kind"]):
            def puml(cb):
                o = copy.deepcopy(plantuml.PLANTUML_RENDER_OPTIONS)
                if cb["user_render_func"] is not None:
                    o[Vertex]["user_render_func"] = cb["user_render_func"]
                return plantuml.render_to_plantuml_src(uni, o)
            ops.append(("render_to_plantuml_src", {"user_render_func": lambda vert, options: f"object {hex(id(vert))}\n"}, puml))
        if not any(k == "N" for k in S["kind"]):
            def pv(cb, fn=None):
                net = (fn or EP.make_pyvis_net)(uni, rvfunc=cb["rvfunc"], refunc=cb["refunc"])
                return [sorted(net.get_nodes()), [(e["from"], e["to"], e.get("arrows")) for e in net.get_edges()]]
            ops.append(("make_pyvis_net", {"rvfunc": lab, "refunc": lambda e: f"e{w.n_link(e)}"}, pv))
            ops.append(("pyvis_render_customizable", {"rvfunc": lab, "refunc": lambda e: f"e{w.n_link(e)}"},
                        lambda cb: pv(cb, EP.pyvis_render_customizable)))
        ops.append(("nrpickler.dumps", {}, lambda cb: len(nrpickler.dumps(uni)) > 0))
    return ops


def run_ro(w, S, spec):
    uni = Universe(vertices=[w.o(v) for v in range(1, S["bv"] + 1)])
    part = Universe(vertices=[w.o(v) for v in range(1, S["bv"])])      # all but the last vertex: links may leave it
    extra = [uni, part]
    out = []
    sel = spec.get("select")
    # user attributes under every style of name (plain, private-looking, dunder-looking): "the same set of attributes with
    # the same values" is about these too, whatever naming scheme the library uses for its own scratch attributes
    for k, ob in enumerate([o for o in w.O if o is not None] + [e for e in w.L if e is not None] + extra):
        ob["colour"] = "red"
        ob["_shade"] = k
        ob["__tag__"] = [k]
        ob["__weight"] = k + 0.5
    ops = ro_operations(w, S, uni)
    ops += [(n + "[part]", c, r) for n, c, r in ro_operations(w, S, part)
            if n.split("(")[0] in ("basic_render", "render_to_plantuml_src", "make_pyvis_net", "pyvis_render_customizable", "nrpickler.dumps")]
    for name, cbs, runner in ops:
        def fresh_wrappers():
            return {c: (Faulty(fn, 0) if fn is not None else None) for c, fn in cbs.items()}

        def run_with(wrapped, faults):
            for c, x in wrapped.items():
                if x is not None:
                    x.k, x.n = faults.get(c, 0), 0
            ans = guarded(lambda: norm(w, runner(wrapped)))
            return ans, {c: (x.n if x else 0) for c, x in wrapped.items()}

        w0 = fresh_wrappers()
        pre = snapshot(w, extra)
        clean, counts = run_with(w0, {})
        post = snapshot(w, extra)
        again, _ = run_with(w0, {})
        out.append({"kind": "ro", "op": name, "cb": "", "k": 0, "pre": pre, "post": post, "clean": clean, "again": again})
        for cbname in cbs:
            for k in range(1, counts[cbname] + 1):
                if sel is not None and P.h(name, cbname, k, S["ends"]) % sel:
                    continue
                # a NEW set of callables for every fault point (so that no memo entry exists for them yet: the faulted
                # call really runs), and the SAME objects, disarmed, for the repeated call (a memo keyed by the callable
                # must not serve what the aborted call left behind)
                wk = fresh_wrappers()
                pre = snapshot(w, extra)
                faulted, _ = run_with(wk, {cbname: k})
                post = snapshot(w, extra)
                again, _ = run_with(wk, {})
                out.append({"kind": "ro", "op": name, "cb": cbname, "k": k, "pre": pre, "post": post, "clean": clean,
                            "again": again, "faulted": faulted})
        # a callback that RE-ENTERS the library: at one of its invocations it runs the same read-only operation on the
        # other universe (which shares vertices with this one) and then answers normally.  What the outer call returns
        # then is its own business; the graph must be as before and a later well-behaved call must answer normally.
        base = name[:-6] if name.endswith("[part]") else name + "[part]"
        inner_runner = next((r for n2, _, r in ops if n2 == base), runner)
        for cbname in cbs:
            for k in sorted({1, counts[cbname]} - {0}):
                if sel is not None and P.h(name, cbname, "re", k, S["ends"]) % sel:
                    continue
                wk = fresh_wrappers()
                if wk[cbname] is None:
                    continue
                plain = wk[cbname].fn

                def reenter(*a, _plain=plain, _cbname=cbname, **kw):
                    inner = fresh_wrappers()
                    guarded(lambda: inner_runner(inner))
                    return _plain(*a, **kw)
                wk[cbname] = Reentrant(plain, reenter, k)
                pre = snapshot(w, extra)
                nested, _ = run_with(wk, {})
                post = snapshot(w, extra)
                again, _ = run_with(fresh_wrappers(), {})
                out.append({"kind": "ro", "op": name, "cb": cbname + ":reentrant", "k": k, "pre": pre, "post": post, "clean": clean,
                            "again": again, "faulted": nested})
    return out


# ------------------------------------------------------------------------------------------------
MUTATIONS = ["append", "add", "remove_first", "clear", "reverse", "setitem", "delitem", "extend_self", "update"]


def mutate(container, how, filler):
    """apply one mutation; an immutable / detached container may refuse (that is fine)"""
    try:
        if how == "append":
            container.append(filler)
        elif how == "add":
            container.add(filler)
        elif how == "remove_first":
            if isinstance(container, (list,)):
                del container[0]
            elif isinstance(container, set):
                container.pop()
            else:
                container.pop(next(iter(container)))
        elif how == "clear":
            container.clear()
        elif how == "reverse":
            container.reverse()
        elif how == "setitem":
            if isinstance(container, list):
                container[0] = filler
            else:
                container[next(iter(container))] = filler
        elif how == "delitem":
            if isinstance(container, list):
                del container[-1]
            else:
                del container[next(iter(container))]
        elif how == "extend_self":
            container += container
        elif how == "update":
            container.update({filler: filler} if isinstance(container, dict) else {filler})
        return "mutated"
    except (TypeError, AttributeError, IndexError, KeyError, StopIteration, ValueError) as exc:
        return type(exc).__name__


def tables(w, S):
    """every structural query answer, normalised (the 'later calls' of C12)"""
    cache = {}
    rows = []
    for p in P.descs_nb(S, filters=[P.NOF]):
        rows.append(P.exec_probe(w, p, cache)["res"])
    for p in P.descs_fl(S):
        if p["f"]["t"] == "none":
            rows.append(P.exec_probe(w, p, cache)["res"])
    return repr(rows)


def handed_out(w, S, uni):
    """(name, getter) for every container the library hands out"""
    n = S["bv"]
    out = []
    for v in range(1, n + 1):
        out.append((f"Vertex.links({v})", lambda v=v: w.o(v).links))
        out.append((f"Vertex.universes({v})", lambda v=v: w.o(v).universes))
        if P.qdom(S, v):
            for d in (0, 1, 2):
                out.append((f"neighbors({v},dir{d})", lambda v=v, d=d: helpers.neighbors(w.o(v), direction_sensitive=d, unknown_handling=1)))
            out.append((f"find_links({v},{v % n + 1})", lambda v=v: helpers.find_links(w.o(v), w.o(v % n + 1), unknown_handling=1)))
    for e in range(1, S["nl"] + 1):
        out.append((f"Link.vertices({e})", lambda e=e: w.L[e].vertices))
    out.append(("Universe.vertices", lambda: uni.vertices))
    out.append(("Universe.universes", lambda: uni.universes))
    law = UniverseLaws(edge_whitelist={Vertex: {Vertex: DirectedEdge}})
    uni2 = Universe(laws=law)
    out.append(("UniverseLaws.edge_whitelist", lambda: law.edge_whitelist))
    out.append(("UniverseLaws.edge_whitelist[Vertex]", lambda: law.edge_whitelist[Vertex]))
    law0 = UniverseLaws(edge_whitelist={})          # an EMPTY whitelist is a whitelist too (not None)
    law.twin = law0                                  # (kept reachable for the snapshot and the tables below)
    out.append(("UniverseLaws.edge_whitelist(empty)", lambda: law0.edge_whitelist))
    if all(P.qdom(S, v) for v in range(1, n + 1)) and P.whole(S) and n:
        for name, fn in (("bft", breadthfirst.bft), ("dft_recursive", depthfirst.dft_recursive), ("dft_iterative", depthfirst.dft_iterative)):
            out.append((f"{name}(1)", lambda fn=fn: fn(uni, w.o(1), direction_sensitive=1, unknown_handling=1)))
    return out, [uni, uni2, law], law


def run_snap(w, S, spec):
    uni = Universe(vertices=[w.o(v) for v in range(1, S["bv"] + 1)])
    getters, extra, law = handed_out(w, S, uni)
    out = []
    filler_v = Vertex()
    sel = spec.get("select")

    def wl():
        return guarded(lambda: norm_map(w, law.edge_whitelist)) + "|" + guarded(lambda: norm_map(w, law.twin.edge_whitelist))

    # the FIRST answer of every query in this state (with the memo on: the one computed on a miss - the list that is
    # also put into the memo must not be the list handed to the caller); taken before anything else asks
    first = {}
    for name, get in getters:
        if name.startswith(("neighbors(", "find_links(", "bft(", "dft_")):
            try:
                first[name] = get()
            except Exception:
                pass
    for name, get in getters:
        for how in MUTATIONS:
            if sel is not None and P.h(name, how, S["ends"]) % sel:
                continue
            try:
                cont = first.pop(name) if name in first else get()
            except Exception:
                continue
            pre = snapshot(w, extra)
            clean = tables(w, S) + wl()
            outcome = mutate(cont, how, filler_v)
            post = snapshot(w, extra)
            again = tables(w, S) + wl() + ("" if guarded(lambda: norm(w, get())) == guarded(lambda: norm(w, get())) else "unstable")
            out.append({"kind": "snap-out", "op": name, "cb": how, "k": 0, "pre": pre, "post": post, "clean": clean,
                        "again": again, "outcome": outcome})
    # containers passed IN: build, snapshot, mutate the argument, snapshot again
    n = S["bv"]
    builders = []
    lks = [w.L[e] for e in range(1, S["nl"] + 1)]
    builders.append(("Vertex(links=)", lambda c: Vertex(links=c), lambda: list(lks)))
    builders.append(("Vertex(universes=)", lambda c: Vertex(universes=c), lambda: [uni]))
    builders.append(("Vertex(attributes=)", lambda c: Vertex(attributes=c), lambda: {"colour": "red"}))
    builders.append(("Universe(vertices=)", lambda c: Universe(vertices=c), lambda: [w.o(v) for v in range(1, n + 1)]))
    builders.append(("Link(vertices=)", lambda c: W.NLink(vertices=c), lambda: [w.o(v) for v in range(1, n + 1)]))
    builders.append(("UniverseLaws(edge_whitelist=)", lambda c: UniverseLaws(edge_whitelist=c),
                     lambda: {Vertex: {Vertex: DirectedEdge}}))
    builders.append(("UniverseLaws(edge_whitelist=)[inner]", lambda c: UniverseLaws(edge_whitelist=c),
                     lambda: {Vertex: {Vertex: DirectedEdge}}))
    from edgegraph.builder import adjlist, adjmatrix
    if n >= 2:
        builders.append(("load_adj_dict(adj)", lambda c: adjlist.load_adj_dict(c), lambda: {w.o(1): [w.o(2)], w.o(2): []}))
        builders.append(("load_adj_dict(adj)[values]", lambda c: adjlist.load_adj_dict(c), lambda: {w.o(1): [w.o(2)], w.o(2): []}))
        builders.append(("load_adj_matrix(matrix)", lambda c: adjmatrix.load_adj_matrix(c, [w.o(1), w.o(2)]), lambda: [[0, 1], [0, 0]]))
        builders.append(("load_adj_matrix(side)", lambda c: adjmatrix.load_adj_matrix([[0, 1], [0, 0]], c), lambda: [w.o(1), w.o(2)]))
    for name, build, mk in builders:
        for how in MUTATIONS:
            if sel is not None and P.h(name, how, S["ends"], 1) % sel:
                continue
            arg = mk()
            try:
                built = build(arg)
            except Exception:
                continue
            w._adopt_new_links()
            S2 = w.project()
            ex2 = extra + [built]
            read = lambda: (guarded(lambda: norm_map(w, built.edge_whitelist)) if isinstance(built, UniverseLaws) else "") \
                + (norm(w, sorted(k for k in vars(built) if not k.startswith("_"))) if isinstance(built, Vertex) else "") \
                + (norm(w, getattr(built, "colour", None)))
            pre = snapshot(w, ex2)
            clean = tables(w, S2) + read()
            target = arg
            if name.endswith("[inner]"):
                target = arg[Vertex]
            elif name.endswith("[values]"):
                target = arg[w.o(1)]
            elif name == "load_adj_matrix(matrix)":
                target = arg[0] if how in ("setitem", "clear", "append") else arg
            outcome = mutate(target, how, filler_v if not isinstance(target, dict) else "zz")
            post = snapshot(w, ex2)
            again = tables(w, S2) + read()
            out.append({"kind": "snap-in", "op": name, "cb": how, "k": 0, "pre": pre, "post": post, "clean": clean,
                        "again": again, "outcome": outcome})
    return out


def run(w, S, spec):
    if spec["kind"] == "C13":
        return run_ro(w, S, spec)
    return run_snap(w, S, spec)


def ro_class(r):
    if r["kind"] == "ro":
        return f"ro:{r['op'].split('(')[0]},cb={r['cb'] or 'none'},k={'0' if r['k'] == 0 else '1' if r['k'] == 1 else 'n'}"
    return f"{r['kind']}:{r['op'].split('(')[0]}{'(' + r['op'].split('(')[1].split(')')[0].rstrip('0123456789,dir') + ')' if r['kind'] == 'snap-in' else ''},{r['cb']},{r.get('outcome')}"
