"""E2 for the query properties: ask the REAL code a table of queries in a given world state and log
the answers (object numbers / exception class).  No expectations here; spec/JudgeQueries.tla judges."""
from __future__ import annotations

import hashlib
import itertools

from edgegraph.structure import Vertex, Universe
from edgegraph.traversal import helpers, breadthfirst, depthfirst

NOF = {"t": "none", "L": [], "V": []}
ALLF = {"t": "all", "L": [], "V": []}
REJ = {"t": "rej", "L": [], "V": []}


def sel(L=(), V=()):
    return {"t": "sel", "L": list(L), "V": list(V)}


REJZ = {"t": "rejz", "L": [], "V": []}        # rejects everything AND is falsy (an empty callable container)
NB_FILTERS = [NOF, ALLF, REJ, sel(L=[1]), sel(V=[2]), sel(L=[2], V=[0, 1]), REJZ]
LINK_FILTERS = [NOF, ALLF, REJ, sel(L=[1]), sel(L=[2]), REJZ]


class FalsyReject(set):
    """a callable allow-list that is empty, hence falsy: `filterfunc or default` must not replace it"""

    def __call__(self, *a):
        return False


class SubVertex(Vertex):
    pass


class FalsyVertex(Vertex):
    def __bool__(self):
        return False


class EmptyLenVertex(Vertex):
    def __len__(self):
        return 0


class TaggedVertex(Vertex):
    """carries the searched attribute on the CLASS (value class 1) unless an instance value overrides it"""
    tag = 1


class RecordVertex(Vertex):
    """wraps a record: attributes that are not its own are served from the record through __getattr__ (hasattr and
    v[name] must both see them)"""

    def __getattr__(self, name):
        rec = self.__dict__.get("_record") or {}
        if name in rec:
            return rec[name]
        raise AttributeError(name)


VERTEX_CLASSES = {"Vertex": None, "PlainVertex": Vertex, "SubVertex": SubVertex, "FalsyVertex": FalsyVertex,
                  "EmptyLenVertex": EmptyLenVertex, "tagged-mixed": [FalsyVertex, TaggedVertex, RecordVertex]}


def h(*parts) -> int:
    return int(hashlib.sha1(repr(parts).encode()).hexdigest()[:8], 16)


def mk_filter(w, f, arity):
    """one callable per (world, filter, arity): the neighbour memo is keyed by the callable's identity"""
    t = f["t"]
    if t == "none":
        return None
    memo = w.__dict__.setdefault("_filter_memo", {})
    mk = (t, tuple(f["L"]), tuple(f["V"]), arity)
    if mk not in memo:
        memo[mk] = _mk_filter(w, f, arity)
    return memo[mk]


def _mk_filter(w, f, arity):
    t = f["t"]
    if t == "all":
        return (lambda e, v: True) if arity == 2 else (lambda e: True)
    if t == "rej":
        return (lambda e, v: False) if arity == 2 else (lambda e: False)
    if t == "rejz":
        return FalsyReject()
    L, V = set(f["L"]), set(f["V"])
    if arity == 2:
        return lambda e, v: (w.n_link(e) in L) or (w.n_obj(v) in V)
    return lambda e: w.n_link(e) in L


def mk_vfilter(w, g):
    if g["t"] == "none":
        return None
    if g["t"] == "all":
        return lambda v: True
    V = set(g["V"])
    return lambda v: w.n_obj(v) in V


class Hang(Exception):
    """a query that does not come back (the properties say every traversal terminates)"""


_HANGS = [0]


def _on_alarm(signum, frame):
    raise Hang()


def call(fn):
    """run one query; a call that does not return within the watchdog's time is reported as the outcome 'Hang'
    (generous for the first ones, short once this process has seen some: every later probe of a looping function would
    otherwise wait in turn).  Only in a main thread (the worker processes' and the replay's)."""
    import signal
    import threading
    if _HANGS[0] >= 5:
        return {"err": "Hang", "out": []}        # this process has seen five queries loop: the run has its verdict, do not wait for more
    armed = threading.current_thread() is threading.main_thread()
    if armed:
        old = signal.signal(signal.SIGALRM, _on_alarm)
        signal.alarm(20 if _HANGS[0] < 2 else 2)
    try:
        return {"err": "", "out": fn()}
    except Hang:
        _HANGS[0] += 1
        return {"err": "Hang", "out": []}
    except Exception as exc:
        return {"err": type(exc).__name__, "out": []}
    finally:
        if armed:
            signal.alarm(0)
            signal.signal(signal.SIGALRM, old)


def qdom(S, v):
    """the vertices at which the QUERIES are specified: every link listed at v is a two-ended link with exactly two
    entries.  (The structural calls - unlink, dontdup - are specified on the wider domain EGStructure!QDom, "at least two
    entries"; what neighbors() answers at a vertex that sits in THIRD place of a two-ended link is not stated anywhere.)"""
    n = len(S["kind"])
    return all(1 <= e <= n and S["kind"][e - 1] != "N" and len(S["ends"][e - 1]) == 2 for e in S["vl"][v - 1])


def probe(q, a, res, f=NOF, g=NOF, M=(-1,), attr=()):
    return {"q": q, "a": list(a), "f": f, "g": g, "M": list(M), "attr": list(attr), "res": res}


def nums(w, seq):
    return [w.n_obj(x) for x in seq]


# ---------------------------------------------------------------------------------------------
TRAV = {"bft": breadthfirst.bft, "dftr": depthfirst.dft_recursive, "dfti": depthfirst.dft_iterative,
        "ibft": breadthfirst.ibft, "idftr": depthfirst.idft_recursive, "idfti": depthfirst.idft_iterative}
SEARCH = {"bfs": breadthfirst.bfs, "dfsr": depthfirst.dfs_recursive, "dfsi": depthfirst.dfs_iterative}

TRAV_VARIANTS = [(sel(L=[1]), NOF), (sel(V=[2]), NOF), (NOF, sel(V=[1])), (ALLF, sel(V=[1, 2])),
                 (sel(L=[2], V=[1]), NOF), (REJ, NOF)]


def desc(q, a, f=NOF, g=NOF, M=(-1,), attr=()):
    return {"q": q, "a": list(a), "f": f, "g": g, "M": list(M), "attr": list(attr)}


def get_universe_reused(w, M, cache):
    """the same Universe object for every call, its membership edited (remove / add) to become M"""
    u = cache.get("reused")
    if u is None:
        u = cache["reused"] = Universe()
    want = [w.o(n) for n in M]
    for v in list(u.vertices):
        if not any(v is x for x in want):
            u.remove_vertex(v)
    for x in want:
        u.add_vertex(x)
    return u


def get_universe(w, M, cache):
    M = tuple(M)
    if M == (-1,):
        return None
    if M not in cache:
        cache[M] = Universe(vertices=[w.o(n) for n in M])
    return cache[M]


# attribute values by equality class: stored forms and (equal, not identical) sought forms
def stored_value(cls, variant):
    if cls == 1:
        return (1, 1.0, True)[variant % 3]
    if cls == 2:
        return "a" + "b"
    if cls == 4:
        return None                 # the attribute exists and holds None
    raise ValueError(cls)


def sought_value(cls):
    if cls == 1:
        return 1.0
    if cls == 2:
        return "".join(["a", "b"])
    if cls == 4:
        return None
    return (1, 2)          # class 3: a value no vertex carries


def set_attrs(w, attr, n):
    for v in range(1, n + 1):
        ob = w.o(v)
        if "tag" in vars(ob):
            delattr(ob, "tag")
        if isinstance(ob, RecordVertex):
            ob.__dict__["_record"] = {"tag": stored_value(attr[v - 1], v)} if v <= len(attr) and attr[v - 1] else {}
        elif v <= len(attr) and attr[v - 1]:
            ob.tag = stored_value(attr[v - 1], v)


def value_class(x):
    if x is None:
        return 4
    if isinstance(x, str):
        return 2 if x == "ab" else -1
    return 1 if x == 1 else -1


def effective_attrs(w, attr, n):
    """what each vertex REALLY answers for the attribute (an instance value, a class-level value, or nothing)"""
    out = list(attr)
    for v in range(1, n + 1):
        ob = w.o(v)
        out[v - 1] = value_class(getattr(ob, "tag")) if hasattr(ob, "tag") else 0
    return out


def exec_probe(w, p, cache):
    """Ask the real code one query described by p; returns p with 'res' filled in."""
    q, a = p["q"], p["a"]
    if q == "nb" and p.get("eph"):
        # a short-lived callable, created for this call only and dropped afterwards
        res = call(lambda: nums(w, helpers.neighbors(w.o(a[0]), direction_sensitive=a[1], unknown_handling=a[2],
                                                     filterfunc=_mk_filter(w, p["f"], 2))))
        out = dict(p)
        out["res"] = res
        return out
    if q == "nb":
        ff = mk_filter(w, p["f"], 2)
        res = call(lambda: nums(w, helpers.neighbors(w.o(a[0]), direction_sensitive=a[1],
                                                     unknown_handling=a[2], filterfunc=ff)))
    elif q == "fl":
        ff = mk_filter(w, p["f"], 1)
        res = call(lambda: sorted(w.n_link(e) for e in helpers.find_links(
            w.o(a[0]), w.o(a[1]), direction_sensitive=bool(a[2]), unknown_handling=a[3], filterfunc=ff)))
    elif q in TRAV:
        uni = get_universe_reused(w, p["M"], cache) if p.get("reuse") else get_universe(w, p["M"], cache)
        fvf, frf = mk_filter(w, p["f"], 2), mk_vfilter(w, p["g"])
        res = call(lambda: nums(w, list(TRAV[q](uni, w.o(a[0]), direction_sensitive=a[1],
                                                unknown_handling=a[2], ff_via=fvf, ff_result=frf))))
    elif q in SEARCH:
        uni = get_universe(w, p["M"], cache)
        set_attrs(w, p["attr"], w.bv)
        eff = effective_attrs(w, p["attr"], w.bv)
        res = call(lambda: [w.n_obj(SEARCH[q](uni, w.o(a[0]), "tag", sought_value(a[1])))])
        set_attrs(w, [], w.bv)
        out = dict(p)
        out["attr"] = eff
        out["res"] = res
        return out
    else:
        raise ValueError(q)
    out = dict(p)
    out["res"] = res
    return out


def whole(S):
    """every link has exactly two ends and neither is None: other() then never answers None, so a traversal never
    walks into None (a two-ended link that was given a third entry answers None to the vertex in third place)"""
    return all(len(S["ends"][e]) == 2 and 0 not in S["ends"][e] for e in range(S["nl"]))


def descs_nb(S, filters=NB_FILTERS):
    for v in range(1, S["bv"] + 1):
        if qdom(S, v):
            for d, u, f in itertools.product((0, 1, 2), (0, 1, 2), filters):
                yield desc("nb", (v, d, u), f=f)


def descs_fl(S):
    vs = [v for v in range(1, S["bv"] + 1) if qdom(S, v)]
    for a, b in itertools.product(vs, vs):
        for ds, u, f in itertools.product((0, 1), (0, 1, 2), LINK_FILTERS):
            yield desc("fl", (a, b, ds, u), f=f)


def msets(S):
    vs = list(range(1, S["bv"] + 1))
    full = whole(S)
    out = [(-1,)] if full else []
    for r in range(1, len(vs) + 1):
        out.extend(itertools.combinations(vs, r))
    return out


def msets_some(S, salt, k):
    """None, the full set and k hash-chosen proper subsets (big pools)"""
    allm = msets(S)
    n = S["bv"]
    keep = [m for m in allm if m == (-1,) or len(m) == n]
    rest = [m for m in allm if m != (-1,) and len(m) < n]
    rest.sort(key=lambda m: h(salt, m))
    return keep + rest[:k]


def descs_trav(S, density, salt, big=False, unks=(0, 1, 2)):
    if not all(qdom(S, v) for v in range(1, S["bv"] + 1)):
        return
    for M in (msets_some(S, (salt, S["ends"]), 3) if big else msets(S)):
        starts = range(1, S["bv"] + 1) if M == (-1,) else M
        for s in starts:
            for d, u in itertools.product((0, 1, 2), unks):
                hv = h(salt, S["ends"], S["vl"], M, s, d, u)
                combos = [("bft", NOF, NOF), ("dftr", NOF, NOF), ("dfti", NOF, NOF),
                          (("ibft", "idftr", "idfti")[hv % 3], NOF, NOF)]
                for j in range(density):
                    fv, fr = TRAV_VARIANTS[(hv // 7 + j) % len(TRAV_VARIANTS)]
                    which = ("bft", "dftr", "dfti", "ibft", "idftr", "idfti")[(hv // 3 + j) % 6]
                    combos.append((which, fv, fr))
                for which, fv, fr in combos:
                    yield desc(which, (s, d, u), f=fv, g=fr, M=M)
                if M != (-1,) and hv % 3 == 0:
                    # the same Universe object as in earlier calls, edited in between (same size, other members)
                    for which in ("bft", "dftr", "dfti"):
                        dsc = desc(which, (s, d, u), M=M)
                        dsc["reuse"] = True
                        yield dsc


def attr_vectors(n, salt, count):
    allv = list(itertools.product((0, 1, 2, 4), repeat=n))
    out = [[1] * n, [0] * n, [2 if x % 2 == 0 else 0 for x in range(n)], [0] + [4] * (n - 1),
           [4 if x % 2 else 0 for x in range(n)], [2] * n]
    i = 0
    while len(out) < min(count, len(allv)) and i < 400:
        v = list(allv[h(salt, i) % len(allv)])
        if v not in out:
            out.append(v)
        i += 1
    return out[:count]


def pair_vectors(n):
    """exactly two vertices carry value 1, the others value 2 or nothing: 'first match' among duplicates"""
    out = []
    for i in range(n):
        for j in range(i + 1, n):
            out.append([1 if x in (i, j) else (2 if (x + i) % 2 else 0) for x in range(n)])
    return out


def descs_search(S, salt, count, big=False):
    n = S["bv"]
    if not all(qdom(S, v) for v in range(1, n + 1)):
        return
    NO = len(S["vl"])
    vecs = attr_vectors(n, (salt, S["ends"]), count)
    if big:
        pv = pair_vectors(n)
        pv.sort(key=lambda v: h(salt, S["ends"], v))
        vecs = vecs[:2] + pv[:max(2, count)]
    for vec in vecs:
        attr = list(vec) + [0] * (NO - n)
        for M in (msets_some(S, (salt, S["ends"]), 1) if big else msets(S)):
            starts = range(1, n + 1) if M == (-1,) else M
            for s in starts:
                for val in (1, 2, 3, 4):
                    for q in ("bfs", "dfsr", "dfsi"):
                        yield desc(q, (s, val), M=M, attr=attr)
            # a start vertex OUTSIDE the universe, sought for the very value it carries: whatever the call does (the
            # searches raise), "a vertex outside the universe is never returned"
            outside = [v for v in range(1, n + 1) if M != (-1,) and v not in M and attr[v - 1]]
            for s in outside[:1]:
                for q in ("bfs", "dfsr", "dfsi"):
                    yield desc(q, (s, attr[s - 1]), M=M, attr=attr)


CACHE_KEYS_QUICK = [(0, 0, NOF), (1, 0, NOF), (0, 1, NOF), (1, 1, NOF), (2, 1, NOF), (1, 2, NOF), (0, 2, NOF),
                    (2, 0, NOF), (1, 1, sel(L=[1]))]
CACHE_KEYS_FULL = [(d, u, f) for d in (0, 1, 2) for u in (0, 1, 2) for f in (NOF, sel(L=[1]), sel(V=[2]))]


def descs_cache(S, full, nofilter=False):
    keys = CACHE_KEYS_FULL if full else CACHE_KEYS_QUICK
    if nofilter:        # memo keys without harness closures (for graphs that get pickled)
        keys = [k for k in keys if k[2]["t"] == "none"]
    n = S["bv"]
    for v in range(1, n + 1):
        if qdom(S, v):
            for d, u, f in keys:
                yield desc("nb", (v, d, u), f=f)
            if not nofilter:
                # two different short-lived filters in a row (a memo keyed by anything weaker than the callable
                # itself confuses them)
                for f in (ALLF, REJ, sel(V=[v]), sel(L=[1]), REJZ):
                    dsc = desc("nb", (v, 1, 1), f=f)
                    dsc["eph"] = True
                    yield dsc
                # ... and the unfiltered question once more: whatever the filtered calls put into the memo (the last one
                # with a callable that is falsy) must not be served for it
                yield desc("nb", (v, 1, 1))
    if all(qdom(S, v) for v in range(1, n + 1)) and whole(S):
        for s in range(1, n + 1):
            for q in (("bft", "dftr", "dfti") if full else ("bft", "dfti" if s % 2 else "dftr")):
                for d in ((0, 1, 2) if full else (0, 1)):
                    yield desc(q, (s, d, 1))


def descs(S, spec):
    kind = spec["kind"]
    if kind == "C05":
        return descs_cache(S, spec.get("full", False), spec.get("nofilter", False))
    if kind == "C04":
        return descs_nb(S)
    if kind == "C09":
        return itertools.chain(descs_fl(S), descs_nb(S, filters=LINK_FILTERS))
    if kind in ("C06", "C07"):
        return descs_trav(S, spec.get("density", 1), spec.get("seed", 0), spec.get("big", False), tuple(spec.get("unks", (0, 1, 2))))
    if kind == "C08":
        return descs_search(S, spec.get("seed", 0), spec.get("vectors", 4), spec.get("big", False))
    raise ValueError(kind)


def run(w, S, spec):
    cache = {}
    return [exec_probe(w, p, cache) for p in descs(S, spec)]


def probe_class(S, p):
    """aliasing class of a probe (coverage accounting)"""
    q, a = p["q"], p["a"]
    if q == "nb":
        v = a[0]
        kinds = sorted({S["kind"][e - 1] for e in S["vl"][v - 1]})
        pos = set()
        for e in S["vl"][v - 1]:
            en = S["ends"][e - 1]
            pos.add("both" if en[0] == v and en[1] == v else "v1" if en[0] == v else "v2")
        par = len(S["vl"][v - 1]) > len({tuple(sorted(S["ends"][e - 1])) for e in S["vl"][v - 1]})
        return f"nb:dir{a[1]},unk{a[2]},f={p['f']['t']},kinds={'+'.join(kinds) or '-'},pos={'+'.join(sorted(pos)) or '-'}{',parallel' if par else ''}"
    if q == "fl":
        x, y = a[0], a[1]
        j = [e for e in S["vl"][x - 1] if sorted(S["ends"][e - 1]) == sorted([x, y])]
        kinds = sorted({S["kind"][e - 1] for e in j})
        return f"fl:ds{a[2]},unk{a[3]},f={p['f']['t']},{'self' if x == y else 'pair'},joining{min(len(j), 2)}{'+'.join(kinds)}"
    if q in TRAV:
        nl = S["nl"]
        shape = []
        if any(en[0] == en[1] for en in S["ends"][:nl] if len(en) == 2):
            shape.append("selfloop")
        if len({tuple(sorted(en)) for en in S["ends"][:nl]}) < nl:
            shape.append("parallel")
        if len(set(S["kind"][:nl])) > 1:
            shape.append("mixed")
        return (f"{q}:dir{a[1]},unk{a[2]},fv={p['f']['t']},fr={p['g']['t']},"
                f"uni={'None' if p['M'] == [-1] else 'all' if len(p['M']) == S['bv'] else 'part'},{'+'.join(shape) or 'plain'}")
    if q in SEARCH:
        attr = p["attr"]
        val = a[1]
        cnt = sum(1 for x in attr if x == val)
        return (f"{q}:matches{min(cnt, 2)},start{'match' if attr[a[0] - 1] == val else 'no'},"
                f"uni={'None' if p['M'] == [-1] else 'all' if len(p['M']) == S['bv'] else 'part'},absent{int(0 in attr[:S['bv']])}")
    return q
