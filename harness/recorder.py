"""pytest plugin: records the repository's OWN tests as traces for the TLA+ judges.

    cd <repo> && PYTHONPATH=/verif:<repo> EG_TRACE_OUT=<file> python -m pytest -p harness.recorder ...

Every top-level call of the structural public API made by a test (constructors, v1/v2 assignment,
add_to_link / remove_from_link, add_vertex / unlink_from, explicit.link_* / unlink, universe membership from
either side, the two laws setters) is logged with the projection of ALL objects the test created, read through
public accessors after the call.  Wrappers are installed from the outside (no source change); nested calls
(the mutual recursion inside the library) are not logged - they are the implementation of the logged call.
Objects are numbered like the specification numbers them (plain vertices, universes, links, law sets, each
in creation order).  A test that touches objects the recorder did not see being created, or more objects
than the judging pool holds, is skipped (counted)."""
from __future__ import annotations

import functools
import json
import os

import pytest

POOL = {"NV": 12, "NU": 4, "NL": 16, "NLaw": 8}

_state = {"depth": 0, "trace": None, "out": None, "stats": {"tests": 0, "kept": 0, "skipped_big": 0,
                                                             "skipped_untracked": 0, "skipped_vocab": 0, "calls": 0}}


class Trace:
    def __init__(self, name):
        self.name = name
        self.verts, self.unis, self.links, self.laws = [], [], [], []     # creation order
        self.default_law = {}       # id(universe) -> law object created for it
        self.events = []            # (call, result, snapshot)
        self.bad = None

    # -- registration ------------------------------------------------------------------------
    def know(self, ob):
        from edgegraph.structure import Universe, Vertex, Link
        from edgegraph.structure.universe import UniverseLaws
        for lst in (self.verts, self.unis, self.links, self.laws):
            if any(x is ob for x in lst):
                return True
        return False

    def token(self, ob):
        if ob is None:
            return ("none", 0)
        for tag, lst in (("v", self.verts), ("u", self.unis), ("l", self.links), ("w", self.laws)):
            for i, x in enumerate(lst):
                if x is ob:
                    return (tag, i + 1)
        self.bad = self.bad or "untracked"
        return ("?", 0)

    def snapshot(self):
        if len(self.verts) > POOL["NV"] or len(self.unis) > POOL["NU"] or len(self.links) > POOL["NL"] \
                or len(self.laws) > POOL["NLaw"]:
            self.bad = self.bad or "big"
            return None
        t = self.token
        snap = {"nv": len(self.verts), "nu": len(self.unis), "nl": len(self.links), "nw": len(self.laws),
                "ends": [[t(v) for v in e.vertices] for e in self.links],
                "kind": [kind_of(e) for e in self.links],
                "vl": [[t(x) for x in o.links] for o in self.verts + self.unis],
                "unis": [[t(x) for x in o.universes] for o in self.verts + self.unis],
                "members": [[t(x) for x in u.vertices] for u in self.unis],
                "laws": [t(u.laws) for u in self.unis],
                "app": [t(w.applies_to) for w in self.laws]}
        return snap


def kind_of(e):
    from edgegraph.structure import DirectedEdge, UnDirectedEdge, TwoEndedLink
    c = type(e)
    if c is DirectedEdge:
        return "D"
    if c is UnDirectedEdge:
        return "U"
    if c is TwoEndedLink:
        return "T"
    if issubclass(c, DirectedEdge):
        return "D2"
    if issubclass(c, UnDirectedEdge):
        return "U2"
    if issubclass(c, TwoEndedLink):
        return "T2"
    return "N"


def kind_of_class(c):
    class _Dummy:
        pass
    from edgegraph.structure import DirectedEdge, UnDirectedEdge, TwoEndedLink
    if c is DirectedEdge:
        return "D"
    if c is UnDirectedEdge:
        return "U"
    if c is TwoEndedLink:
        return "T"
    if isinstance(c, type) and issubclass(c, DirectedEdge):
        return "D2"
    if isinstance(c, type) and issubclass(c, UnDirectedEdge):
        return "U2"
    if isinstance(c, type) and issubclass(c, TwoEndedLink):
        return "T2"
    return "N"


def toplevel(describe, register=None):
    """decorator factory: log the call when it is not nested inside another logged call; `register` (constructors)
    runs for nested calls too, so that objects the library creates internally are known"""
    def deco(fn):
        @functools.wraps(fn)
        def wrapper(*a, **kw):
            tr = _state["trace"]
            if tr is None or _state["depth"] > 0 or tr.bad:
                _state["depth"] += 1
                try:
                    r = fn(*a, **kw)
                    if register is not None and tr is not None and not tr.bad:
                        register(tr, a, kw)
                    return r
                finally:
                    _state["depth"] -= 1
            _state["depth"] += 1
            err, ret = "", None
            try:
                ret = fn(*a, **kw)
                return ret
            except Exception as exc:
                err = type(exc).__name__
                raise
            finally:
                _state["depth"] -= 1
                try:
                    call = describe(tr, a, kw, ret, err)
                    if call is None:
                        tr.bad = tr.bad or f"vocab:{getattr(fn, '__qualname__', fn)}"
                    else:
                        snap = tr.snapshot()
                        if snap is not None:
                            tr.events.append((call, err, snap))
                            _state["stats"]["calls"] += 1
                except Exception as exc:        # the recorder must never break a test
                    tr.bad = tr.bad or f"recorder:{type(exc).__name__}"
        return wrapper
    return deco


def install():
    from edgegraph.structure import Vertex, Universe, Link, TwoEndedLink
    from edgegraph.structure import universe as umod
    from edgegraph.builder import explicit
    UniverseLaws = umod.UniverseLaws
    T = lambda tr, x: tr.token(x)

    # ---- constructors ---------------------------------------------------------------------
    def reg_vertex(tr, a, kw):
        if not isinstance(a[0], Universe) and not tr.know(a[0]):
            tr.verts.append(a[0])

    def reg_universe(tr, a, kw):
        if not tr.know(a[0]):
            tr.unis.append(a[0])
            if kw.get("laws") is None and not tr.know(a[0].laws):
                tr.laws.append(a[0].laws)       # the default law set made by the constructor

    def reg_laws(tr, a, kw):
        if kw.get("applies_to") is None and not tr.know(a[0]):
            tr.laws.append(a[0])

    def reg_link(tr, a, kw):
        if not tr.know(a[0]):
            tr.links.append(a[0])

    def d_vertex_init(tr, a, kw, ret, err):
        self = a[0]
        if isinstance(self, Universe):
            return None
        if err:
            return {"op": "vnew-failed"}
        reg_vertex(tr, a, kw)
        if hasattr(kw.get("links"), "__next__"):
            return None             # a one-shot iterator: its content cannot be observed after the call
        links = list(kw.get("links") or [])
        unis = list(kw.get("universes") or []) if not hasattr(kw.get("universes"), "__next__") else None
        if unis is None:
            return None
        return {"op": "vnew", "k": "", "a": [T(tr, e) for e in links], "b": [T(tr, u) for u in unis], "out": ("v", len(tr.verts))}

    def d_universe_init(tr, a, kw, ret, err):
        self = a[0]
        if err:
            return {"op": "unew-failed"}
        reg_universe(tr, a, kw)
        law = kw.get("laws")
        lawtok = ("none", 0) if law is None else T(tr, law)
        vs = kw.get("vertices")
        vs = list(vs) if vs is not None and not hasattr(vs, "__next__") else ([] if vs is None else None)
        if vs is None:
            return None
        return {"op": "unew", "k": "", "a": [T(tr, v) for v in vs], "b": [lawtok], "out": ("u", len(tr.unis)),
                "default_law": law is None}

    def d_laws_init(tr, a, kw, ret, err):
        if err:
            return {"op": "lawnew-failed"}
        reg_laws(tr, a, kw)
        if kw.get("applies_to") is not None or len(a) > 6:
            return None
        return {"op": "lawnew", "k": "", "a": [], "b": []}

    def d_link_init(tr, a, kw, ret, err):
        self = a[0]
        if err:
            return {"op": "new-failed"}
        reg_link(tr, a, kw)
        vs = list(kw.get("vertices") or [])
        k = kind_of(self)
        if k != "N" and len(vs) == 2:
            return {"op": "new", "k": k, "a": [T(tr, vs[0]), T(tr, vs[1])], "b": [], "out": ("l", len(tr.links))}
        return {"op": "lnew", "k": "N" if k == "N" else k, "a": [T(tr, v) for v in vs], "b": [], "out": ("l", len(tr.links))}

    Vertex.__init__ = toplevel(d_vertex_init, reg_vertex)(Vertex.__init__)
    Universe.__init__ = toplevel(d_universe_init, reg_universe)(Universe.__init__)
    UniverseLaws.__init__ = toplevel(d_laws_init, reg_laws)(UniverseLaws.__init__)
    Link.__init__ = toplevel(d_link_init, reg_link)(Link.__init__)

    # ---- mutators -------------------------------------------------------------------------
    def simple(op, order):
        def d(tr, a, kw, ret, err):
            args = list(a) + list(kw.values())
            return {"op": op, "k": "", "a": [T(tr, args[i]) for i in order], "b": []}
        return d

    Vertex.add_to_link = toplevel(simple("vadd", (0, 1)))(Vertex.add_to_link)
    Vertex.remove_from_link = toplevel(simple("vrem", (0, 1)))(Vertex.remove_from_link)
    Link.add_vertex = toplevel(simple("ladd", (0, 1)))(Link.add_vertex)
    Link.unlink_from = toplevel(simple("lunl", (0, 1)))(Link.unlink_from)
    Vertex.add_to_universe = toplevel(simple("oadd", (0, 1)))(Vertex.add_to_universe)
    Vertex.remove_from_universe = toplevel(simple("orem", (0, 1)))(Vertex.remove_from_universe)
    Universe.add_vertex = toplevel(simple("uadd", (0, 1)))(Universe.add_vertex)
    Universe.remove_vertex = toplevel(simple("urem", (0, 1)))(Universe.remove_vertex)

    def d_setv(i):
        def d(tr, a, kw, ret, err):
            return {"op": "setv", "k": "", "a": [T(tr, a[0]), ("int", i), T(tr, a[1])], "b": []}
        return d
    if hasattr(TwoEndedLink, "_set_v1") and hasattr(TwoEndedLink, "_set_v2"):
        TwoEndedLink._set_v1 = toplevel(d_setv(1))(TwoEndedLink._set_v1)
        TwoEndedLink._set_v2 = toplevel(d_setv(2))(TwoEndedLink._set_v2)
    else:       # private helpers renamed: wrap the public properties of every class that defines them
        from edgegraph.structure import DirectedEdge, UnDirectedEdge
        for cls in (TwoEndedLink, DirectedEdge, UnDirectedEdge):
            for i, nm in ((1, "v1"), (2, "v2")):
                prop = cls.__dict__.get(nm)
                if isinstance(prop, property) and prop.fset is not None:
                    setattr(cls, nm, property(prop.fget, toplevel(d_setv(i))(prop.fset)))

    # property setters
    laws_prop = Universe.laws
    Universe.laws = property(laws_prop.fget, toplevel(simple("setlaws", (0, 1)))(laws_prop.fset))
    app_prop = UniverseLaws.applies_to
    UniverseLaws.applies_to = property(app_prop.fget, toplevel(simple("setapp", (0, 1)))(app_prop.fset))

    # ---- explicit builder -----------------------------------------------------------------
    def d_link(op):
        def d(tr, a, kw, ret, err):
            if op == "link":
                v1, cls, v2 = a[0], a[1], a[2]
                dd = a[3] if len(a) > 3 else kw.get("dontdup", False)
                k = kind_of_class(cls)
                if k == "N":
                    return None
            else:
                v1, v2 = a[0], a[1]
                dd = a[2] if len(a) > 2 else kw.get("dontdup", False)
                k = ""
            if not err and ret is not None and not any(ret is x for x in tr.links):
                return None          # created a link the Link.__init__ wrapper did not see
            return {"op": op, "k": k, "a": [T(tr, v1), T(tr, v2), ("int", int(bool(dd)))], "b": [],
                    "out": T(tr, ret) if not err else None}
        return d

    def d_unlink(tr, a, kw, ret, err):
        destroy = a[2] if len(a) > 2 else kw.get("destroy", True)
        return {"op": "unlink", "k": "", "a": [T(tr, a[0]), T(tr, a[1]), ("int", int(bool(destroy)))], "b": [],
                "outset": None if ret is None else [T(tr, e) for e in ret]}

    explicit.link_from_to = toplevel(d_link("link"))(explicit.link_from_to)
    explicit.link_directed = toplevel(d_link("linkd"))(explicit.link_directed)
    explicit.link_undirected = toplevel(d_link("linku"))(explicit.link_undirected)
    explicit.unlink = toplevel(d_unlink)(explicit.unlink)


# -- conversion to judge records ------------------------------------------------------------------
def finalize(tr):
    NV, NU, NL, NLaw = POOL["NV"], POOL["NU"], POOL["NL"], POOL["NLaw"]
    # law numbering: default law of universe k -> k; free law sets -> NU + j (replaying creation order)
    law_no = {}
    nfree = 0
    uni_seen = 0
    law_pos = 0
    for call, err, snap in tr.events:
        if call["op"] == "unew":
            uni_seen += 1
            if call.get("default_law"):
                law_pos += 1
                law_no[law_pos] = uni_seen
        elif call["op"] == "lawnew":
            law_pos += 1
            nfree += 1
            law_no[law_pos] = NU + nfree
    if NU + nfree > NLaw:
        return None

    def num(tok):
        tag, i = tok
        if tag == "none":
            return 0
        if tag == "int":
            return i
        if tag == "v":
            return i
        if tag == "u":
            return NV + i
        if tag == "l":
            return i
        if tag == "w":
            return law_no.get(i, -1)
        return -1

    def state(snap):
        S = {"nl": snap["nl"], "kind": snap["kind"] + [""] * (NL - snap["nl"]),
             "ends": [[num(t) for t in e] for e in snap["ends"]] + [[] for _ in range(NL - snap["nl"])],
             "vl": [[] for _ in range(NV + NU)], "unis": [[] for _ in range(NV + NU)],
             "members": [[] for _ in range(NU)], "laws": [0] * NU, "app": [0] * NLaw,
             "bv": snap["nv"], "bu": snap["nu"], "bl": [False] * NLaw}
        for i in range(snap["nv"]):
            S["vl"][i] = [num(t) for t in snap["vl"][i]]
            S["unis"][i] = [num(t) for t in snap["unis"][i]]
        for k in range(snap["nu"]):
            S["vl"][NV + k] = [num(t) for t in snap["vl"][snap["nv"] + k]]
            S["unis"][NV + k] = [num(t) for t in snap["unis"][snap["nv"] + k]]
            S["members"][k] = [num(t) for t in snap["members"][k]]
            S["laws"][k] = num(snap["laws"][k])
        for j in range(snap["nw"]):
            n = law_no.get(j + 1, -1)
            if 1 <= n <= NLaw:
                S["bl"][n - 1] = True
                S["app"][n - 1] = num(snap["app"][j])
        return S

    empty = {"nv": 0, "nu": 0, "nl": 0, "nw": 0, "ends": [], "kind": [], "vl": [], "unis": [], "members": [], "laws": [], "app": []}
    prev = state(empty)
    recs = []
    for call, err, snap in tr.events:
        post = state(snap)
        op = call["op"]
        if op.endswith("-failed"):
            prev = post
            continue
        if op == "lawnew":
            prev = post            # creating a free-standing law set is not a call of the specification: adopt
            continue
        a_toks = list(call["a"])
        # the specification names the universe of a membership / laws call by its INDEX, not its object number
        uix = {"uadd": 0, "urem": 0, "setlaws": 0, "oadd": 1, "orem": 1}.get(op)
        if uix is not None and a_toks[uix][0] == "u":
            a_toks[uix] = ("int", a_toks[uix][1])
        elif uix is not None:
            continue            # a membership call on something that is not a universe: outside the vocabulary
        c = {"op": op, "k": call["k"], "a": [num(t) for t in a_toks], "b": [num(t) for t in call["b"]]}
        out = []
        if not err:
            if "out" in call and call["out"] is not None:
                out = [num(call["out"])]
            if call.get("outset") is not None:
                out = [0] + sorted(num(t) for t in call["outset"])
        recs.append({"pre": prev, "c": c, "res": {"err": err, "out": out}, "post": post})
        prev = post
    return recs


# -- pytest hooks ---------------------------------------------------------------------------------
def pytest_configure(config):
    _state["out"] = os.environ.get("EG_TRACE_OUT")
    if _state["out"]:
        install()
        open(_state["out"], "w").close()


@pytest.hookimpl(hookwrapper=True)
def pytest_runtest_protocol(item, nextitem):
    """one trace per test, covering its function-scoped fixtures (setup) and its body"""
    if not _state["out"]:
        yield
        return
    tr = Trace(item.nodeid)
    _state["trace"], _state["depth"] = tr, 0
    try:
        yield
    finally:
        _state["trace"] = None
        st = _state["stats"]
        st["tests"] += 1
        recs = None
        if tr.bad is None and tr.events:
            try:
                recs = finalize(tr)
            except Exception as exc:
                tr.bad = f"finalize:{type(exc).__name__}"
        if tr.bad:
            key = {"big": "skipped_big", "untracked": "skipped_untracked"}.get(tr.bad, "skipped_vocab")
            st[key] += 1
            st.setdefault("reasons", {})
            st["reasons"][tr.bad] = st["reasons"].get(tr.bad, 0) + 1
        elif recs:
            st["kept"] += 1
            with open(_state["out"], "a") as f:
                f.write(json.dumps({"test": tr.name, "records": recs}) + "\n")


def pytest_sessionfinish(session, exitstatus):
    if _state["out"]:
        with open(_state["out"] + ".stats", "w") as f:
            json.dump(_state["stats"], f)
