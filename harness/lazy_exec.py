"""Generator traversals interleaved with structural calls (spec/EGLazy.tla, spec/JudgeLazy.tla).

Three parts, all in one stage of the C06 check:
  model    TLC explores every interleaving of next() with the structural calls over a small pool and checks the
           invariants / action properties of EGLazy; the negative control EagerEq must be refuted.
  spec->code  behaviours of the specification's own random walk (tlc -simulate, history variable) are replayed on
           real generators: every next() must return what the behaviour says.
  code->spec  seeded random histories are run on real generators (bigger pool, unknown-type links, hidden vertices,
           neighbour caching on and off) and TLC follows each one with the generator's hidden local state carried
           by the specification (JudgeLazy!Follow).

An undisturbed history (no structural call while the generator is live) that deviates is a violation of C06 ("the
generator and list forms agree element by element": EGLazy!Undisturbed ties the step machine to EGQueries!Trav).  A
disturbed history that deviates is beyond the listed properties and reported as a note + evidence only."""
from __future__ import annotations

import json
import os
import random

from . import tlc, structural as ST, world as W
from .common import Machinery

NOF = {"t": "none", "L": [], "V": []}
LCONST = {"HistLen": 0, "GenKinds": {"ibft", "idftr", "idfti"}, "GDirs": {0}, "GUnks": {2}, "HideSets": "<-HNone", "ViaSet": "<-VNone",
          "Pace": False, "MinLinks": 0}
INVS = ["NoDupYields", "YieldsListed", "LocalsVisited", "DoneIsEmpty"]
PROPS = ["YieldIsMemberNow", "Progress", "ExhaustedStays", "MutationsLeaveLocals", "Undisturbed", "DiscoveredByEdge"]

MODEL_A = dict(ST.BASE, NV=3, NU=0, NL=2, NLaw=0, InitBV=3, InitBU=0, Kinds={"D"}, Fams={"link", "uni"},
               OnlyOps={"new", "setv", "uadd", "urem"}, AllowNone=False, DoEmit=False)
MODEL_B = dict(ST.BASE, NV=2, NU=1, NL=2, NLaw=1, InitBV=2, InitBU=1, Kinds={"D", "U"}, Fams={"link", "uni"},
               OnlyOps={"new", "setv", "uadd", "urem"}, AllowNone=False, DoEmit=False)
MODEL_C = dict(ST.BASE, NV=3, NU=0, NL=2, NLaw=0, InitBV=3, InitBU=0, Kinds={"D", "T"}, Fams={"link"},
               OnlyOps={"new", "setv"}, AllowNone=False, DoEmit=False)      # (with a universe as well: 28 million states, 35 min)
SIM = dict(ST.BASE, NV=4, NU=1, NL=5, NLaw=1, InitBV=4, InitBU=1, Kinds={"D", "U"}, Fams={"link", "expl", "uni"},
           OnlyOps={"new", "setv", "unlink", "uadd", "urem"}, AllowNone=False, DoEmit=False)
RAND = dict(ST.BASE, NV=5, NU=1, NL=7, NLaw=1, InitBV=5, InitBU=1, Kinds={"D", "U", "T"}, Fams={"link", "expl", "uni"},
            AllowNone=False, DoEmit=False)


def W_C(op, k="", a=()):
    return {"op": op, "k": k, "a": list(a), "b": []}


def _gens():
    from edgegraph.traversal import breadthfirst, depthfirst
    return {"ibft": breadthfirst.ibft, "idftr": depthfirst.idft_recursive, "idfti": depthfirst.idft_iterative}


def make_gen(w, gs):
    hidden = [w.o(h) for h in gs["hide"]]
    fr = (lambda v: not any(v is h for h in hidden)) if hidden else None
    from . import probes as P
    return _gens()[gs["kind"]](w.o(gs["u"]) if gs["u"] else None, w.o(gs["s"]), direction_sensitive=gs["d"],
                               unknown_handling=gs["unk"], ff_via=P.mk_filter(w, gs.get("fv", NOF), 2), ff_result=fr)


def eager_plan(w, gs):
    """what the LIST form answers right now (neighbour caching switched off meanwhile so that no memo is touched);
    None when it raises"""
    from edgegraph.structure import Vertex
    from edgegraph.traversal import breadthfirst, depthfirst
    lst = {"ibft": breadthfirst.bft, "idftr": depthfirst.dft_recursive, "idfti": depthfirst.dft_iterative}[gs["kind"]]
    hidden = [w.o(h) for h in gs["hide"]]
    fr = (lambda v: not any(v is h for h in hidden)) if hidden else None
    flag = Vertex.NEIGHBOR_CACHING
    Vertex.NEIGHBOR_CACHING = False
    try:
        from . import probes as P
        # (through the probes' watchdog: a list form that loops must not stop the check)
        r = P.call(lambda: [w.n_obj(v) for v in lst(w.o(gs["u"]) if gs["u"] else None, w.o(gs["s"]), direction_sensitive=gs["d"],
                                                    unknown_handling=gs["unk"], ff_via=P.mk_filter(w, gs.get("fv", NOF), 2), ff_result=fr)])
        return None if r["err"] else r["out"]
    finally:
        Vertex.NEIGHBOR_CACHING = flag


def do_next(w, gen):
    from . import probes as P

    def step():
        try:
            return w.n_obj(next(gen))
        except StopIteration:
            return 0
    r = P.call(step)            # with the watchdog: a next() that never returns is the outcome "Hang"
    return {"out": r["out"] if not r["err"] else 0, "err": r["err"]}


# ------------------------------------------------------------------------------------------ model
def model(run, wd, tier):
    cfgs = [("lazy-3x2-D", MODEL_A, {})]
    if tier == "thorough":
        cfgs += [("lazy-2x2-DU+uni", MODEL_B, {}),
                 ("lazy-3x2-DT+unk+hide", MODEL_C, {"GUnks": {0, 1, 2}, "HideSets": "<-HSome"}),
                 ("lazy-2x2-DU+uni+dirs+hide+via", MODEL_B, {"GDirs": {0, 1, 2}, "HideSets": "<-HSome", "ViaSet": "<-VSome"})]
    for name, consts, over in cfgs:
        c = dict(consts)
        c.update(LCONST)
        c.update(over)
        text = tlc.make_cfg(c, init="LInit", next_="LNext", view="LView", constraint="LBound", invariants=INVS, properties=PROPS)
        res = tlc.run_tlc("EGLazy", text, wd, workers=16, tag=name, timeout=3000, heap="8g")
        run.add_model(name, res, {k: (sorted(v) if isinstance(v, set) else v) for k, v in c.items()})
    c = dict(MODEL_A)
    c.update(LCONST)
    neg = tlc.run_tlc("EGLazy", tlc.make_cfg(c, init="LInit", next_="LNext", view="LView", constraint="LBound", invariants=["EagerEq"]),
                      wd, workers=8, tag="lazy-neg", allow_violation=True, timeout=900)
    if not neg.get("violated"):
        raise Machinery("EGLazy: the negative control EagerEq (generator = list computed at the first next()) was not refuted")


# ------------------------------------------------------------------------------------------ spec -> code
def simulate(wd, num, depth, seed):
    c = dict(SIM)
    c.update(LCONST)
    c.update({"HistLen": depth, "Pace": True, "MinLinks": 3, "GDirs": {0, 1, 2}, "HideSets": "<-HSome", "ViaSet": "<-VSome"})
    text = tlc.make_cfg(c, init="LInit", next_="LNext", view="LView", constraint="LBound", invariants=["DumpHist"])
    res = tlc.run_tlc("EGLazy", text, wd, workers=1, tag="lazy-sim", simulate=f"num={num}", depth=depth + 1, seed=seed, timeout=1800)
    seen, out = set(), []
    for h in res["json"]:
        k = json.dumps(h, sort_keys=True)
        if k not in seen:
            seen.add(k)
            out.append(h)
    if not out:
        raise Machinery("EGLazy simulation produced no behaviour")
    return out, res


def run_schedule(consts, hist, caching):
    """The calls of a TLC behaviour as a SCHEDULE for the real objects.  The real outcome is logged (the graph after
    every structural call is whatever the code made of it), so a structural call for which the specification allows
    several outcomes cannot derail the comparison: JudgeLazy adopts the logged graph and follows the generator."""
    from edgegraph.structure import Vertex
    flag = Vertex.NEIGHBOR_CACHING
    Vertex.NEIGHBOR_CACHING = caching
    try:
        w = W.World(consts, ST.base_state(consts))
        gen = gs = s0 = eager = None
        ev, live, disturbed = [], False, False
        for e in hist:
            c = e["c"]
            if c["op"] == "gcreate":
                gs = {"kind": c["k"], "u": c["a"][0], "s": c["a"][1], "d": c["a"][2], "unk": c["a"][3], "hide": list(c["b"]),
                      "fv": {"t": c["fv"]["t"], "L": list(c["fv"]["L"]), "V": list(c["fv"]["V"])}}
                s0 = w.project()
                gen = make_gen(w, gs)
            elif c["op"] == "gnext":
                if not any(x["op"] == "next" for x in ev):
                    eager = eager_plan(w, gs)
                r = do_next(w, gen)
                ev.append({"op": "next", "out": r["out"], "err": r["err"]})
                live = r["out"] != 0
            else:
                w.apply(c)
                if gen is not None:
                    ev.append({"op": "mut", "t": w.project()})
                    disturbed = disturbed or live
        if gen is None:
            return None
        return {"s0": s0, "gen": gs, "ev": ev, "disturbed": disturbed, "caching": caching, "eager": eager,
                "schedule": [e["c"] for e in hist]}
    finally:
        Vertex.NEIGHBOR_CACHING = flag


def eager_differs(consts, t):
    """does the recorded yield sequence differ from the list form evaluated when the generator was started?  (vacuity
    guard: laziness must be observable in what is judged).  Re-runs the schedule up to the first next()."""
    ys = [e["out"] for e in t["ev"] if e["op"] == "next" and e["out"]]
    return t.get("eager") is not None and ys != t["eager"][:len(ys)]


# ------------------------------------------------------------------------------------------ code -> spec
def random_call(rnd, w, consts):
    kinds = sorted(consts["Kinds"])
    nv = w.bv
    for _ in range(20):
        op = rnd.choice(["new", "new", "setv", "unlink", "uadd", "uadd", "urem", "linkd", "linku"])
        if op == "new" and w.nl < w.NL:
            return {"op": "new", "k": rnd.choice(kinds), "a": [rnd.randint(1, nv), rnd.randint(1, nv)], "b": []}
        if op in ("linkd", "linku") and w.nl < w.NL:
            return {"op": op, "k": "", "a": [rnd.randint(1, nv), rnd.randint(1, nv), rnd.randint(0, 1)], "b": []}
        if op == "setv" and w.nl:
            return {"op": "setv", "k": "", "a": [rnd.randint(1, w.nl), rnd.randint(1, 2), rnd.randint(1, nv)], "b": []}
        if op == "unlink":
            return {"op": "unlink", "k": "", "a": [rnd.randint(1, nv), rnd.randint(1, nv), rnd.randint(0, 1)], "b": []}
        if op in ("uadd", "urem") and w.bu:
            return {"op": op, "k": "", "a": [1, rnd.choice(list(range(1, nv + 1)) + [w.NV + 1])], "b": []}
    return {"op": "unlink", "k": "", "a": [1, 1, 0], "b": []}


def random_trace(consts, seed, caching):
    from edgegraph.structure import Vertex
    rnd = random.Random(seed)
    flag = Vertex.NEIGHBOR_CACHING
    Vertex.NEIGHBOR_CACHING = caching
    try:
        w = W.World(consts, ST.base_state(consts))
        for _ in range(rnd.randint(2, 9)):
            w.apply(random_call(rnd, w, consts))
        if rnd.random() < 0.8:                      # most generators walk a populated universe
            for o in rnd.sample(range(1, w.bv + 1), rnd.randint(2, w.bv)):
                w.apply({"op": "uadd", "k": "", "a": [1, o], "b": []})
        gs = {"kind": rnd.choice(["ibft", "idftr", "idfti"]), "u": rnd.choice([0, w.NV + 1, w.NV + 1]), "s": rnd.randint(1, w.bv),
              "d": rnd.choice([0, 0, 1, 2]), "unk": rnd.choice([0, 1, 2, 2]),
              "hide": sorted(rnd.sample(range(1, w.bv + 1), rnd.choice([0, 0, 1, 2]))),
              "fv": rnd.choice([NOF, NOF, NOF, {"t": "all", "L": [], "V": []}, {"t": "rej", "L": [], "V": []},
                                {"t": "sel", "L": sorted(rnd.sample(range(1, w.NL + 1), 3)), "V": sorted(rnd.sample(range(1, w.bv + 1), 2))}])}
        s0 = w.project()
        gen = make_gen(w, gs)
        ev, idle, disturbed = [], 0, False
        live, eager = False, None
        quiet = rnd.random() < 0.25                 # a quarter of the histories are undisturbed
        while len(ev) < 16 and idle < 2:
            if not quiet and rnd.random() < 0.45:
                w.apply(random_call(rnd, w, consts))
                if w.extra_links:
                    break                           # left the pool the judge knows: stop the history here
                ev.append({"op": "mut", "t": w.project()})
                disturbed = disturbed or live
            else:
                if not any(x["op"] == "next" for x in ev):
                    eager = eager_plan(w, gs)
                r = do_next(w, gen)
                ev.append({"op": "next", "out": r["out"], "err": r["err"]})
                live = r["out"] != 0
                idle = idle + 1 if r["out"] == 0 else 0
        return {"s0": s0, "gen": gs, "ev": ev, "disturbed": disturbed, "caching": caching, "seed": seed, "eager": eager}
    finally:
        Vertex.NEIGHBOR_CACHING = flag


def judge(traces, consts, wd, tag):
    c = dict(consts)
    c.update(LCONST)
    text = tlc.make_cfg(c, init="JInit", next_="JNext", invariants=["Judged"])
    path = os.path.join(wd, f"lazy-{tag}.json")
    with open(path, "w") as f:
        json.dump([{"id": t["id"], "s0": t["s0"], "gen": t["gen"], "ev": t["ev"]} for t in traces], f)
    res = tlc.run_tlc("JudgeLazy", text, wd, workers=1, tag=f"lazy-judge-{tag}", env={"EG_RECORDS": path}, heap="4g", stack="512m")
    if res["distinct"] != len(traces):
        raise Machinery(f"JudgeLazy examined {res['distinct']} of {len(traces)} histories")
    os.remove(path)
    return res["json"]


def klass(t):
    gs = t["gen"]
    n = sum(1 for e in t["ev"] if e["op"] == "next" and e["out"])
    errs = sorted({e["err"] for e in t["ev"] if e["op"] == "next" and e["err"]})
    return (f"lazy:{gs['kind']},uni={int(bool(gs['u']))},dir={gs['d']},unk={gs['unk']},hide={min(len(gs['hide']), 1)},via={gs.get('fv', NOF)['t']},"
            f"{'disturbed' if t['disturbed'] else 'quiet'},{'lazy-differs' if eager_differs(None, t) else 'as-eager'},yields={min(n, 4)},err={'+'.join(errs) or '-'},cache={int(t['caching'])}")


def report(run, t, v, consts, beyond):
    rp = {"kind": "lazy-trace", "consts": {k: (sorted(x) if isinstance(x, set) else x) for k, x in consts.items()},
          "trace": {k: t.get(k) for k in ("s0", "gen", "ev", "caching", "seed", "schedule")}, "at": v["at"], "expected": v["exp"]}
    ev = t["ev"]
    started = next((i for i, e in enumerate(ev) if e["op"] == "next"), len(ev))
    disturbed_before = any(e["op"] == "mut" for e in ev[started + 1:v["at"] - 1])
    preflight = v["at"] - 1 == started and (v["exp"]["err"] or v["exp"]["out"] == 0)    # C06 leaves an unusable start / empty universe open
    raises = t.get("eager") is None          # the list form raises here: C06 does not say when the generator form does
    if disturbed_before or preflight or raises:
        beyond.append(rp)
    else:
        run.violation(f"lazy|{t['gen']['kind']}-undisturbed", f"generator {t['gen']}: event {v['at']} is {ev[v['at'] - 1]} "
                      f"but the specification (= the list form, EGLazy!Undisturbed) gives {v['exp']}", rp)


def check(run, wd, seed, tier, prop="C06"):
    model(run, wd, tier)
    beyond = []
    # spec -> code: the specification's own random walk as schedules
    num, depth = (40, 24) if tier == "quick" else (400, 30)
    hists, res = simulate(wd, num, depth, seed + 11)
    run.add_model("lazy-simulate-4x5", res, {"num": num, "depth": depth})
    # three fixed schedules in which a link is added right after the first yield (so that laziness is certainly observed,
    # whatever the seed): 1 -> 2 -> 3, first next(), then 1 -> 4
    nof = {"t": "none", "L": [], "V": []}
    for kind in ("ibft", "idftr", "idfti"):
        hists.append([{"c": W_C("new", "D", [1, 2])}, {"c": W_C("new", "D", [2, 3])},
                      {"c": {"op": "gcreate", "k": kind, "a": [0, 1, 0, 2], "b": [], "fv": nof}}, {"c": W_C("gnext")},
                      {"c": W_C("new", "D", [1, 4])}] + [{"c": W_C("gnext")}] * 5)
    cap = 1500 if tier == "quick" else 20000
    step = max(1, len(hists) // cap)
    sched = []
    for hi, h in enumerate(hists[:-3][::step] + hists[-3:]):
        t = run_schedule(SIM, h, caching=bool(hi % 2))
        if t is not None and any(e["op"] == "next" for e in t["ev"]):
            t["id"] = len(sched) + 1
            sched.append(t)
            run.count_class("sched-" + klass(t))
    for v in judge(sched, SIM, wd, "sched"):
        report(run, sched[v["id"] - 1], v, SIM, beyond)
    # code -> spec
    n = 400 if tier == "quick" else 6000
    traces = []
    for k in range(n):
        t = random_trace(RAND, seed * 100003 + k, caching=bool(k % 2))
        t["id"] = len(traces) + 1
        traces.append(t)
        run.count_class(klass(t))
    verdicts = judge(traces, RAND, wd, "rand")
    for v in verdicts:
        report(run, traces[v["id"] - 1], v, RAND, beyond)
    run.traces += len(sched) + len(traces)
    nexts = sum(1 for t in sched for e in t["ev"] if e["op"] == "next")
    lazy_yields = sum(1 for t in sched + traces if eager_differs(None, t))
    run.evaluations += nexts + sum(1 for t in traces for e in t["ev"] if e["op"] == "next")
    run.extra["generators_interleaved"] = {
        "spec_to_code": {"behaviours_generated": len(hists), "schedules_run": len(sched), "next_calls_followed": nexts,
                         "disturbed": sum(1 for t in sched if t["disturbed"])},
        "histories_whose_yields_differ_from_eager_evaluation": lazy_yields,
        "code_to_spec": {"histories": len(traces), "disturbed": sum(1 for t in traces if t["disturbed"]),
                         "next_calls_followed": sum(1 for t in traces for e in t["ev"] if e["op"] == "next"), "deviating": len(verdicts)},
        "deviations_beyond_the_listed_properties": len(beyond), "first_beyond": beyond[:2],
        "note": "generator traversals interleaved with structural calls (spec/EGLazy.tla); an undisturbed deviation is a C06 violation, "
                "a disturbed one is informational"}
    if beyond:
        run.notes.append(f"generators under interleaving: {len(beyond)} disturbed histories deviate from spec/EGLazy.tla (no listed property; see evidence)")
    if lazy_yields == 0:
        raise Machinery("vacuity guard: no judged history had yields that differ from eager evaluation")


def replay(rp, wd):
    """re-execute a recorded lazy violation; -> True when it reproduces"""
    consts = {k: (set(v) if isinstance(v, list) and k in ("Kinds", "Fams", "OnlyOps") else v) for k, v in rp["consts"].items()}
    tr = rp["trace"]
    if tr.get("schedule"):
        t = run_schedule(consts, [{"c": c} for c in tr["schedule"]], tr["caching"])
    else:
        t = random_trace(consts, tr["seed"], tr["caching"])
    t["id"] = 1
    return bool(judge([t], consts, wd, "replay"))
