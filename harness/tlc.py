"""Run TLC / SANY, collect statistics and the JSON lines printed with PrintT(ToJson(..))."""
from __future__ import annotations

import json
import os
import re
import shutil
import subprocess
import time

SPEC_DIR = os.path.join(os.environ.get("VERIF_ROOT", "/verif"), "spec")
JAR = "/opt/veriftools/tla/tla2tools.jar:/opt/veriftools/tla/CommunityModules-deps.jar"


class TLCFailure(Exception):
    """Machinery failure (exit 2), never a property violation."""


def tla_value(v) -> str:
    """Python value -> TLA+ constant expression for a cfg file."""
    if isinstance(v, bool):
        return "TRUE" if v else "FALSE"
    if isinstance(v, int):
        return str(v)
    if isinstance(v, str):
        return '"' + v + '"'
    if isinstance(v, (set, frozenset)):
        return "{" + ", ".join(sorted(tla_value(x) for x in v)) + "}"
    if isinstance(v, (list, tuple)):
        return "<<" + ", ".join(tla_value(x) for x in v) + ">>"
    raise TypeError(v)


def make_cfg(constants: dict, spec="Spec", invariants=(), properties=(), constraint=None,
             action_constraint=None, view=None, postcondition=None, init=None, next_=None,
             deadlock=False) -> str:
    lines = ["CONSTANTS"] if constants else []
    for k, v in constants.items():
        if isinstance(v, str) and v.startswith("<-"):
            lines.append(f" {k} <- {v[2:].strip()}")      # substitution by a definition of the module
        else:
            lines.append(f" {k} = {tla_value(v)}")
    if init and next_:
        lines.append(f"INIT {init}")
        lines.append(f"NEXT {next_}")
    else:
        lines.append(f"SPECIFICATION {spec}")
    if view:
        lines.append(f"VIEW {view}")
    if constraint:
        for c in ([constraint] if isinstance(constraint, str) else constraint):
            lines.append(f"CONSTRAINT {c}")
    if action_constraint:
        lines.append(f"ACTION_CONSTRAINT {action_constraint}")
    for i in invariants:
        lines.append(f"INVARIANT {i}")
    for p in properties:
        lines.append(f"PROPERTY {p}")
    if postcondition:
        lines.append(f"POSTCONDITION {postcondition}")
    lines.append(f"CHECK_DEADLOCK {'TRUE' if deadlock else 'FALSE'}")
    return "\n".join(lines) + "\n"


_STATS = re.compile(r"(\d+) states generated, (\d+) distinct states found, (\d+) states left on queue")
_DEPTH = re.compile(r"depth of the complete state graph search is (\d+)")


def run_tlc(module: str, cfg_text: str, workdir: str, *, workers=16, env=None, simulate=None,
            depth=None, seed=None, timeout=3600, extra=(), coverage=False, heap="8g",
            keep_stdout=True, tag="tlc", allow_violation=False, stack=None, on_json=None):
    """Run TLC on /verif/spec/<module>.tla with the given cfg.

    Returns dict(generated, distinct, depth, json, stdout_path, wall_s, violated, error_text).
    `json` is the list of decoded PrintT(ToJson(..)) lines (empty when `on_json` is given: each decoded line is
    then handed to that callback instead of being kept in memory).
    A TLC invariant / property violation sets `violated`; with allow_violation False it raises
    TLCFailure because, for a *model* run, it means the specification contradicts itself.
    """
    os.makedirs(workdir, exist_ok=True)
    cfg = os.path.join(workdir, f"{tag}.cfg")
    with open(cfg, "w") as f:
        f.write(cfg_text)
    meta = os.path.join(workdir, f"{tag}.meta")
    shutil.rmtree(meta, ignore_errors=True)
    out_path = os.path.join(workdir, f"{tag}.out")
    jtmp = os.path.join(workdir, "jtmp")          # TLC unpacks its standard modules into java.io.tmpdir on every start:
    os.makedirs(jtmp, exist_ok=True)               # keep that inside the work directory so that it goes away with it
    cmd = ["java", f"-Xmx{heap}", f"-Djava.io.tmpdir={jtmp}"] + ([f"-Xss{stack}"] if stack else []) + ["-XX:+UseParallelGC", "-cp", JAR, "tlc2.TLC",
           "-workers", str(workers), "-metadir", meta, "-noGenerateSpecTE", "-config", cfg]
    if simulate:
        cmd += ["-simulate", simulate]
    if depth:
        cmd += ["-depth", str(depth)]
    if seed is not None:
        cmd += ["-seed", str(seed)]
    if coverage:
        cmd += ["-coverage", "1"]
    cmd += list(extra)
    cmd += [module + ".tla"]
    e = dict(os.environ)
    if env:
        e.update({k: str(v) for k, v in env.items()})
    t0 = time.time()
    with open(out_path, "w") as fo:
        try:
            p = subprocess.run(cmd, cwd=SPEC_DIR, stdout=fo, stderr=subprocess.STDOUT, env=e, timeout=timeout)
            rc = p.returncode
        except subprocess.TimeoutExpired:
            rc = -9
    wall = time.time() - t0
    res = {"generated": 0, "distinct": 0, "depth": 0, "json": [], "stdout_path": out_path,
           "wall_s": wall, "violated": False, "error_text": "", "rc": rc}
    errs = []
    with open(out_path, errors="replace") as f:
        for line in f:
            if line.startswith('"{') or line.startswith('"['):
                try:
                    obj = json.loads(json.loads(line))
                except Exception as ex:  # pragma: no cover
                    raise TLCFailure(f"undecodable JSON line from TLC: {line[:200]} ({ex})")
                if on_json is not None:
                    on_json(obj)
                    res["njson"] = res.get("njson", 0) + 1
                else:
                    res["json"].append(obj)
                continue
            m = _STATS.search(line)
            if m:
                res["generated"], res["distinct"] = int(m.group(1)), int(m.group(2))
            m = _DEPTH.search(line)
            if m:
                res["depth"] = int(m.group(1))
            if line.startswith("Error:") or "is violated" in line or "Exception" in line:
                errs.append(line.strip())
    shutil.rmtree(meta, ignore_errors=True)
    if not keep_stdout:
        os.remove(out_path)
    res["error_text"] = "\n".join(errs[:20])
    if rc == -9:
        raise TLCFailure(f"TLC timed out after {timeout}s on {module}")
    violated = any(("is violated" in x) or ("Invariant" in x and "violated" in x) for x in errs)
    res["violated"] = violated
    if rc != 0 and not (violated and allow_violation):
        tail = subprocess.run(["tail", "-n", "40", out_path], capture_output=True, text=True).stdout if keep_stdout else ""
        raise TLCFailure(f"TLC failed on {module} (rc={rc}):\n{res['error_text']}\n{tail}")
    return res


def sany(module: str) -> None:
    p = subprocess.run(["java", "-cp", JAR, "tla2sany.SANY", module + ".tla"], cwd=SPEC_DIR,
                       capture_output=True, text=True)
    if p.returncode != 0 or "*** Errors" in p.stdout or "Fatal" in p.stdout:
        raise TLCFailure(f"SANY rejected {module}:\n{p.stdout[-2000:]}")
