"""C14 (PlantUML source), C15 (PyVis export), C16 (plain text) -- spec/EGRender.tla, answer mode."""
from __future__ import annotations

import json
import os
import time
from concurrent.futures import ThreadPoolExecutor

from . import tlc, explore, structural as ST, world as W, probes as P, render_exec as RX
from .checks_query import qcfg
from .common import Run, Machinery

ASSUME = [
    "the renderer's text / network is parsed back into abstract form by harness code (trusted): plain text is split at the "
    "first ' -> ' and at ', '; PlantUML declarations and relation lines are recognised by two regular expressions; PyVis "
    "nodes / edges are read through get_nodes / get_node / get_edges",
    "vertex renderings are unique labels (or the default repr, or hex ids / a unique attribute for PlantUML titles)",
    "graphs are those reachable through the public API over the stated pool; universes are fresh Universe objects holding "
    "every ordered subset of the vertices",
]


def judge(consts, recs, wd, name, shards=8):
    if not recs:
        return []
    jc = {k: consts[k] for k in ("NV", "NU", "NL", "NLaw")}
    text = tlc.make_cfg(jc, invariants=["Judged"])
    n = max(1, min(shards, len(recs) // 3000 + 1))
    size = (len(recs) + n - 1) // n
    parts = [recs[i:i + size] for i in range(0, len(recs), size)]

    def one(ix):
        path = os.path.join(wd, f"rrecs-{name}-{ix}.json")
        with open(path, "w") as f:
            json.dump([{k: v for k, v in r.items() if k not in ("text", "path")} for r in parts[ix]], f)
        r = tlc.run_tlc("JudgeRender", text, wd, workers=1, tag=f"rjudge-{name}-{ix}", env={"EG_RECORDS": path},
                        heap="3g", timeout=3000)
        if r["distinct"] != len(parts[ix]):
            raise Machinery(f"render judge examined {r['distinct']} of {len(parts[ix])} records")
        os.remove(path)
        return r["json"]

    out = []
    with ThreadPoolExecutor(max_workers=n) as ex:
        for js in ex.map(one, range(len(parts))):
            out.extend(js)
    return out


def run_config(run, prop, name, consts, wd, seed, vertex_cls="mixed", caching=False, simulate=None, depth=None,
               probe_filter=None, big=False):
    t0 = time.time()
    gen = ST.generate(name, consts, wd, simulate=simulate, depth=depth, seed=seed + 11)
    run.add_model(name, gen, {k: (sorted(v) if isinstance(v, set) else v) for k, v in consts.items()})
    index = gen.pop("index")
    t1 = time.time()
    spec = {"engine": "render", "kind": prop, "seed": seed, "big": big}
    agg = {"bad": 0, "n": 0, "judge_s": 0.0, "chunks": 0, "sampled": False}

    def probe_sink(probed):
        recs = []
        for pr in probed:
            for r in pr["probes"]:
                r["id"] = len(recs) + 1
                r["path"] = pr["path"]
                recs.append(r)
        tj = time.time()
        agg["chunks"] += 1
        verdicts = judge(consts, recs, wd, f"{name}-{agg['chunks']}")
        agg["judge_s"] += time.time() - tj
        for v in verdicts:
            r = recs[v["id"] - 1]
            cls = RX.render_class(r)
            agg["bad"] += 1
            run.violation(f"{cls}|{'+'.join(sorted(v['fail']))}",
                          f"{r['kind']} rendering of members {r['M']} violates {'+'.join(sorted(v['fail']))}",
                          {"kind": "render", "config": name, "consts": {k: (sorted(x) if isinstance(x, set) else x) for k, x in consts.items()},
                           "vertex_cls": vertex_cls, "path": r["path"],
                           "probe": {k: r[k] for k in r if k in ("kind", "M", "sorted", "default_repr", "rank", "style", "variant", "title_tag", "customizable", "extra_attr", "grown")},
                           "state": r["S"], "observed": r["res"], "text": r.get("text"), "fail": v["fail"], "expected": v.get("exp")})
        for r in recs:
            run.count_class(RX.render_class(r))
        agg["n"] += len(recs)
        run.traces += len(recs)
        run.evaluations += len(recs)
        if not agg["sampled"] and recs:
            agg["sampled"] = True
            r = recs[len(recs) * 2 // 3]
            run.sample({"config": name, "state": {k: r["S"][k] for k in ("kind", "ends", "vl")}, "members": r["M"],
                        "text": r.get("text"), "parsed": r["res"]})

    _, confirmed, st, _ = explore.explore(consts, ST.base_state(consts), index, index, probe=spec, vertex_cls=vertex_cls,
                                          keep_records=False, caching=caching, probe_sink=probe_sink, probe_filter=probe_filter,
                                          probe_chunk=(400, 20000))
    t2 = time.time()
    st.update({"renderings": agg["n"], "failing": agg["bad"], "t_generate_s": round(t1 - t0, 1),
               "t_execute_and_judge_s": round(t2 - t1, 1), "t_judge_s": round(agg["judge_s"], 1)})
    run.extra.setdefault("executions", []).append({"config": name, **st})


def replay(prop, path, wd):
    with open(path) as f:
        rp = json.load(f)
    consts = {k: (set(v) if isinstance(v, list) else v) for k, v in rp["consts"].items()}
    from edgegraph.structure import Vertex
    w = W.World(consts, ST.base_state(consts), P.VERTEX_CLASSES[rp.get("vertex_cls") or "Vertex"])
    for c in rp["path"] or []:
        w.apply(c)
    S = w.project()
    p = rp["probe"]
    if p["kind"] == "plain":
        r = RX.plain_probe(w, S, p["M"], p["sorted"], p["default_repr"], 0, style=p.get("style", 0))
        r["rank"] = p["rank"]
    elif p["kind"] == "puml":
        if p.get("grown"):
            table = {"opts": {}, "hist": []}
            for variant, tag in p["grown"]:
                r = RX.puml_probe(w, S, p["M"], variant, tag, table)
        else:
            r = RX.puml_probe(w, S, p["M"], p["variant"], p["title_tag"])
    else:
        r = RX.pyvis_probe(w, S, p["M"], p["customizable"], True, p["extra_attr"])
    r["id"] = 1
    if p["kind"] == "plain":   # re-run with the recorded rank vector
        r2 = RX.plain_probe(w, S, p["M"], p["sorted"], p["default_repr"], 0 if r["rank"] == p["rank"] else 1, style=p.get("style", 0))
        r2["id"] = 1
        r = r2
    v = judge(consts, [r], wd, "replay", shards=1)
    print(r.get("text"))
    print(json.dumps(r["res"])[:1500])
    if v:
        print(f"VIOLATION property={prop} replay={path}  # reproduced: {v[0]['fail']}")
        return 1
    print(f"replay of {path}: property {prop} holds on the current tree")
    return 0


def _check(prop, tier, seed, wd, rp, rule, cfgs_quick, cfgs_thorough, mandatory, nontrivial):
    if rp:
        return replay(prop, rp, wd)
    run = Run(prop, tier, seed)
    run.rule = rule
    cfgs = cfgs_quick if tier == "quick" else cfgs_thorough
    for name, consts in cfgs:
        # the 3-link pool alone is ~300 000 renderings: every fourth state of it, chosen by hash
        from .checks_query import big_filter
        run_config(run, prop, name, consts, wd, seed, probe_filter=big_filter(0, 4) if "3x3" in name else None)
    # the same graphs with every vertex carrying the same explicit uid, and with neighbour caching on
    name, consts = cfgs[-1]
    from .checks_query import big_filter as _bf
    run_config(run, prop, name + "+sameuid+cache", consts, wd, seed, vertex_cls="mixed-sameuid", caching=True,
               probe_filter=_bf(0, 6) if "3x3" in name else None)
    # larger, denser universes from the specification's own random walk (member lists sampled)
    from .checks_query import big_filter
    kinds = {"D", "U", "D2"} if prop == "C14" else {"D", "U", "T"}
    bname, bconsts = qcfg("graphs-sim-5x7", NV=5, InitBV=5, NL=7, Kinds=kinds, AllowNone=False, OnlyOps={"new"})
    run_config(run, prop, bname, bconsts, wd, seed, simulate="num=12" if tier == "quick" else "num=80", depth=8,
               probe_filter=big_filter(4, 10 if tier == "quick" else 5), big=True)
    if prop == "C14":
        from . import image_exec
        dev = image_exec.check(run, wd, seed, tier)     # informational: render_to_image / is_plantuml_installed (spec/EGImage.tla)
        if dev:
            run.notes.append(f"render_to_image: {len(dev)} call(s) deviate from spec/EGImage.tla (no listed property; see evidence)")
    run.exhaustive = True
    run.assumptions = ASSUME
    return run.finish(nontrivial_filter=nontrivial, mandatory=mandatory)


def c16(tier, seed, wd, replay=None):
    return _check("C16", tier, seed, wd, replay,
                  "in every graph state over the pool, basic_render is run on the real objects for every ordered member list "
                  "(all subsets, all orders, the empty universe) x {unsorted, sorted by a key} x {unique-label rfunc, default repr}; "
                  "the text is parsed back and TLC compares line count, line order, heads and neighbour lists with "
                  "EGRender!PlainLines (empty universe -> None, unknown link type -> NotImplementedError); class = (members, graph "
                  "shape inside the universe, kinds, sorted, repr); non-trivial = the universe has an internal link or an isolated member",
                  [qcfg("graphs-3x2-DU", NV=3, InitBV=3, Kinds={"D", "U"}, OnlyOps={"new"}),
                   qcfg("graphs-2x2-DUT", Kinds={"D", "U", "T"}, OnlyOps={"new", "setv"})],
                  [qcfg("graphs-3x2-DUT", NV=3, InitBV=3, Kinds={"D", "U", "T"}, OnlyOps={"new", "setv"}),
                   qcfg("graphs-3x3-DU", NV=3, InitBV=3, NL=3, Kinds={"D", "U"}, OnlyOps={"new"})],
                  [lambda c: "isolated" in c, lambda c: "selfloop" in c, lambda c: "parallel" in c, lambda c: "leaving" in c,
                   lambda c: "members0" in c, lambda c: "sorted1" in c and "repr1" in c],
                  lambda c: "plain," not in c)


def c14(tier, seed, wd, replay=None):
    return _check("C14", tier, seed, wd, replay,
                  "in every fully assigned graph state over the pool (vertex classes Vertex / SubVertex / SubSubVertex mixed), "
                  "render_to_plantuml_src is run for every ordered member list x 3 option tables (default; + options for a vertex "
                  "subclass and a DirectedEdge subclass; + TwoEndedLink, an UnDirectedEdge subclass and a deeper vertex subclass) x "
                  "{$id, attribute-format} titles; the text is parsed back and TLC checks framing, one declaration per member with "
                  "the nearest configured class's type, exactly one v1->v2 relation line with the configured arrow ends per internal "
                  "link, and no relation line without a link; class = (members, shape, kinds, option table, title, classes)",
                  [qcfg("graphs-3x2-DU", NV=3, InitBV=3, Kinds={"D", "U", "D2"}, OnlyOps={"new"}),
                   qcfg("graphs-2x2-all", Kinds={"D", "U", "T", "U2"}, OnlyOps={"new", "setv"})],
                  [qcfg("graphs-3x2-all", NV=3, InitBV=3, Kinds={"D", "U", "T", "D2", "U2", "T2"}, OnlyOps={"new", "setv"}),
                   qcfg("graphs-3x3-DU", NV=3, InitBV=3, NL=3, Kinds={"D", "U", "D2"}, OnlyOps={"new"})],
                  [lambda c: "selfloop" in c, lambda c: "parallel" in c, lambda c: "mixedkinds" in c, lambda c: "isolated" in c,
                   lambda c: "leaving" in c, lambda c: "members0" in c, lambda c: "opts2" in c and "D2" in c,
                   lambda c: "SubSubVertex" in c and "opts1" in c],
                  lambda c: "kinds=-" not in c)


def c15(tier, seed, wd, replay=None):
    return _check("C15", tier, seed, wd, replay,
                  "in every graph state over the pool, make_pyvis_net / pyvis_render_customizable are run for every ordered member "
                  "list (vertices optionally carrying unrelated attributes, incl. one named i); nodes and edges are read back and TLC "
                  "checks EGRender!PyvisOK: ids 0..n-1 in member order with the rvfunc labels, one arrowed edge i->j per directed "
                  "link, arrow-less edges only for non-directed links, every internal link (self-loops included) joined by some edge, "
                  "nothing for non-members; class = (members, shape, kinds, entry point, extra attributes)",
                  [qcfg("graphs-3x2-DU", NV=3, InitBV=3, Kinds={"D", "U"}, OnlyOps={"new"}),
                   qcfg("graphs-2x2-DUT", Kinds={"D", "U", "T", "D2"}, OnlyOps={"new", "setv"})],
                  [qcfg("graphs-3x2-all", NV=3, InitBV=3, Kinds={"D", "U", "T", "D2", "U2"}, OnlyOps={"new", "setv"}),
                   qcfg("graphs-3x3-DU", NV=3, InitBV=3, NL=3, Kinds={"D", "U"}, OnlyOps={"new"})],
                  [lambda c: "selfloop" in c, lambda c: "parallel" in c, lambda c: "mixedkinds" in c, lambda c: "leaving" in c,
                   lambda c: "extra1" in c, lambda c: "custom1" in c],
                  lambda c: "kinds=-" not in c)


CHECKS = {"C14": c14, "C15": c15, "C16": c16}
