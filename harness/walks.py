"""Path-faithful random walks: long histories of public calls on ONE set of real objects, every step judged.

The model-guided exploration (harness/explore.py) visits every (state, call) pair once and identifies states by their
PROJECTION; a defect that lives in state the projection cannot see (a private index that goes stale when an object
leaves through one side and comes back through the other) needs the particular history.  Here seeded random walks
(do / undo / redo through different entry points are frequent by construction) run on one world each; every call is
one record (pre, call, result, post) for the TLA+ judge of the property (JudgeStruct)."""
from __future__ import annotations

import random

from . import structural as ST, world as W

POOLS = {
    "links": dict(ST.BASE, NV=3, InitBV=3, NU=0, InitBU=0, NL=4, NLaw=0, Kinds={"D", "U", "T", "D2"}, UseN=True, MaxEnds=3, MaxArg=3,
                  Fams={"link", "expl"}),
    "unis": dict(ST.BASE, NV=3, InitBV=2, NU=2, InitBU=2, NL=0, NLaw=2, Kinds={"D"}, Fams={"uni", "new"}, MaxArg=2),
    "mixed": dict(ST.BASE, NV=3, InitBV=3, NU=2, InitBU=1, NL=4, NLaw=2, Kinds={"D", "U", "T"}, UseN=False, MaxEnds=2,
                  Fams={"link", "expl", "uni", "new"}, UniEnds=True),
    "laws": dict(ST.BASE, NV=0, InitBV=0, NU=3, InitBU=2, NL=0, NLaw=5, Kinds={"D"}, Fams={"laws", "new"}, MaxArg=0),
}


def C(op, k="", a=(), b=()):
    return {"op": op, "k": k, "a": list(a), "b": list(b)}


def offer(rnd, w, consts, family, last):
    """one call, chosen so that undoing / redoing what `last` did through ANOTHER entry point is likely"""
    S = w.project()
    ends = list(range(1, w.bv + 1)) + ([w.NV + k for k in range(1, w.bu + 1)] if consts.get("UniEnds") else [])
    born = list(range(1, w.bv + 1)) + [w.NV + k for k in range(1, w.bu + 1)]
    kinds = sorted(consts["Kinds"])
    opts = []
    if family in ("links", "mixed") and ends:
        nl = w.nl
        if nl < w.NL:
            opts += [C("new", rnd.choice(kinds), [rnd.choice(ends), rnd.choice(ends)])] * 2
            opts += [C(rnd.choice(["linkd", "linku"]), "", [rnd.choice(ends), rnd.choice(ends), rnd.randint(0, 1)])]
            opts += [C("link", rnd.choice(kinds), [rnd.choice(ends), rnd.choice(ends), rnd.randint(0, 1)])]
            if consts.get("UseN"):
                opts += [C("lnew", "N", [rnd.choice(ends) for _ in range(rnd.randint(0, 3))])]
        if nl:
            e = rnd.randint(1, nl)
            two = S["kind"][e - 1] != "N"
            if two and len(S["ends"][e - 1]) >= 2:
                opts += [C("setv", "", [e, rnd.randint(1, 2), rnd.choice(ends)])] * 2
            v = rnd.choice(ends)
            if len(S["ends"][e - 1]) < consts["MaxEnds"] and (not two or consts["MaxEnds"] > 2):
                opts += [C("vadd", "", [v, e]), C("ladd", "", [e, v])]
            opts += [C("vrem", "", [v, e]), C("lunl", "", [e, v])]
            opts += [C("unlink", "", [rnd.choice(ends), rnd.choice(ends), rnd.randint(0, 1)])]
        if last and last["op"] in ("vadd", "ladd", "vrem", "lunl"):
            v, e = (last["a"][0], last["a"][1]) if last["op"] in ("vadd", "vrem") else (last["a"][1], last["a"][0])
            opts += [C("vrem", "", [v, e]), C("lunl", "", [e, v])] if last["op"] in ("vadd", "ladd") and False else []
    if family in ("unis", "mixed") and w.bu:
        k, o = rnd.randint(1, w.bu), rnd.choice(born)
        opts += [C("uadd", "", [k, o]), C("oadd", "", [o, k]), C("urem", "", [k, o]), C("orem", "", [o, k])]
        if last and last["op"] in ("uadd", "oadd", "urem", "orem"):
            k2, o2 = (last["a"][0], last["a"][1]) if last["op"] in ("uadd", "urem") else (last["a"][1], last["a"][0])
            # the same pair again, through every entry point: leave by one side, come back by the other
            opts += [C("uadd", "", [k2, o2]), C("oadd", "", [o2, k2]), C("urem", "", [k2, o2]), C("orem", "", [o2, k2])] * 2
        if w.bv < w.NV:
            us = [w.NV + rnd.randint(1, w.bu) for _ in range(rnd.randint(0, 2))]
            opts += [C("vnew", "", [], us)]
        if w.bu < w.NU:
            opts += [C("unew", "", [rnd.choice(born) for _ in range(rnd.randint(0, 2))], [0])]
    if family == "laws":
        laws = [0] + [j for j in range(1, w.NLaw + 1) if w.LAW[j] is not None]
        unis = [0] + [w.NV + k for k in range(1, w.bu + 1)]
        if w.bu:
            opts += [C("setlaws", "", [rnd.randint(1, w.bu), rnd.choice(laws)])] * 2
        real = [j for j in laws if j]
        if real:
            opts += [C("setapp", "", [rnd.choice(real), rnd.choice(unis)])] * 2
        if w.bu < w.NU:
            opts += [C("unew", "", [], [rnd.choice(laws)])]
    return rnd.choice(opts) if opts else None


def walk(family, seed, length):
    consts = POOLS[family]
    rnd = random.Random(seed)
    w = W.World(consts, ST.base_state(consts))
    recs, last = [], None
    for _ in range(length):
        c = offer(rnd, w, consts, family, last)
        if c is None:
            break
        pre = w.project()
        res = w.apply(c)
        if w.extra_links:
            break           # left the pool the judge is sized for
        post = w.project()
        if any(len(e) > consts["MaxEnds"] + 1 for e in post["ends"]):
            break
        recs.append({"pre": pre, "c": c, "res": res, "post": post, "seed": seed, "step": len(recs)})
        last = c
    return recs


def check(run, prop, wd, families, nwalks, length, seed):
    total = 0
    for family in families:
        consts = POOLS[family]
        recs = []
        for k in range(nwalks):
            recs.extend(walk(family, seed * 7919 + k, length))
        for j, r in enumerate(recs):
            r["id"] = j + 1
        for v in ST.judge(prop, consts, recs, wd, f"walk-{family}"):
            if "fail" not in v:
                continue
            r = recs[v["id"] - 1]
            run.violation(f"walk:{family}:{r['c']['op']}|{'+'.join(sorted(v['fail']))}",
                          f"history seed={r['seed']} ({family}), step {r['step'] + 1}: {r['c']['op']}{r['c']['a']} violates {'+'.join(sorted(v['fail']))}",
                          {"kind": "walk", "family": family, "seed": r["seed"], "length": length, "step": r["step"], "call": r["c"],
                           "observed": {"pre": r["pre"], "res": r["res"], "post": r["post"]}, "expected": v.get("exp")})
        for r in recs:
            run.count_class(f"walk:{family}:{r['c']['op']}")
        total += len(recs)
        run.traces += nwalks
        run.evaluations += len(recs)
    run.extra["random_walks"] = {"families": list(families), "walks_per_family": nwalks, "steps": total,
                                 "note": "path-faithful histories on one set of objects each (states are NOT merged by projection)"}


def replay(rp, prop, wd):
    recs = walk(rp["family"], rp["seed"], rp["length"])[:rp["step"] + 1]
    for j, r in enumerate(recs):
        r["id"] = j + 1
    bad = [v for v in ST.judge(prop, POOLS[rp["family"]], recs, wd, "walk-replay", shards=1) if "fail" in v]
    return bool(bad)
