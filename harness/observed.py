"""Which lines / branches of edgegraph do the checks actually observe?

    /venv/bin/python -m harness.observed [--tier quick] [C01 C02 ...]

"It decides nothing about code it never observes": this tool runs the registered checks under coverage.py
(branch mode, worker processes and sub-interpreters included), with evidence and replays redirected to a
scratch directory, and writes /verif/coverage/observed.json + observed.md: per module the statements and
branches of /repo/edgegraph that no check executed.  It is a measuring instrument for growing the
specification, not a check (it never reports a violation).
"""
from __future__ import annotations

import json
import os
import shutil
import subprocess
import sys
import tempfile

VERIF = os.path.dirname(os.path.dirname(os.path.abspath(__file__)))
REPO = os.environ.get("VERIF_REPO", "/repo")


def main():
    import coverage  # noqa: F401  (fail early when absent)
    args = [a for a in sys.argv[1:] if not a.startswith("--")]
    tier = "quick"
    if "--tier" in sys.argv:
        tier = sys.argv[sys.argv.index("--tier") + 1]
        args = [a for a in args if a != tier]
    props = args or [json.loads(l)["id"] for l in open(os.path.join(VERIF, "properties.jsonl"))]
    scratch = tempfile.mkdtemp(prefix="verif-observed-")
    try:
        rc_path = os.path.join(scratch, "coveragerc")
        with open(rc_path, "w") as f:
            f.write(f"[run]\nbranch = True\nparallel = True\nconcurrency = multiprocessing\n"
                    f"data_file = {scratch}/data/.coverage\nsource =\n    {REPO}/edgegraph\n")
        os.makedirs(os.path.join(scratch, "data"))
        site = os.path.join(scratch, "site")
        os.makedirs(site)
        with open(os.path.join(site, "sitecustomize.py"), "w") as f:
            f.write("import coverage\ncoverage.process_startup()\n")
        env = dict(os.environ, COVERAGE_PROCESS_START=rc_path, COVERAGE_RCFILE=rc_path,
                   PYTHONPATH=site + os.pathsep + os.environ.get("PYTHONPATH", ""),
                   VERIF_EVIDENCE_DIR=os.path.join(scratch, "evidence"), VERIF_REPLAY_DIR=os.path.join(scratch, "replays"),
                   VERIF_REPO=REPO)
        status = {}
        for p in props:
            r = subprocess.run([sys.executable, os.path.join(VERIF, "check.py"), p, "--tier", tier], env=env,
                               capture_output=True, text=True)
            status[p] = r.returncode
            print(p, "exit", r.returncode, (r.stdout.strip().splitlines() or [""])[-1][:160], flush=True)
        subprocess.run([sys.executable, "-m", "coverage", "combine", "--rcfile", rc_path, os.path.join(scratch, "data")],
                       env=env, capture_output=True, text=True)
        out_json = os.path.join(scratch, "cov.json")
        r = subprocess.run([sys.executable, "-m", "coverage", "json", "--rcfile", rc_path, "-o", out_json],
                           env=env, capture_output=True, text=True)
        if not os.path.exists(out_json):
            print(r.stdout, r.stderr)
            return 2
        cov = json.load(open(out_json))
        res = {"tier": tier, "checks": status, "totals": cov["totals"], "modules": {}}
        lines = ["# edgegraph code observed by the checks", "",
                 f"tier: {tier}; checks: {' '.join(props)}", "",
                 f"statements {cov['totals']['covered_lines']}/{cov['totals']['num_statements']}, "
                 f"branches {cov['totals']['covered_branches']}/{cov['totals']['num_branches']}", "",
                 "| module | statements | branches | lines never executed | branches never taken |", "|---|---|---|---|---|"]
        for path, d in sorted(cov["files"].items()):
            name = os.path.relpath(path, REPO)
            s = d["summary"]
            res["modules"][name] = {"statements": s["num_statements"], "covered": s["covered_lines"],
                                    "branches": s["num_branches"], "covered_branches": s["covered_branches"],
                                    "missing_lines": d["missing_lines"], "missing_branches": d.get("missing_branches", [])}
            mb = ", ".join(f"{a}→{b}" for a, b in d.get("missing_branches", []))
            lines.append(f"| `{name}` | {s['covered_lines']}/{s['num_statements']} | {s['covered_branches']}/{s['num_branches']} | "
                         f"{', '.join(map(str, d['missing_lines'])) or '-'} | {mb or '-'} |")
        os.makedirs(os.path.join(VERIF, "coverage"), exist_ok=True)
        json.dump(res, open(os.path.join(VERIF, "coverage", f"observed-{tier}.json"), "w"), indent=1, sort_keys=True)
        open(os.path.join(VERIF, "coverage", f"observed-{tier}.md"), "w").write("\n".join(lines) + "\n")
        print("\n".join(lines))
        return 0
    finally:
        shutil.rmtree(scratch, ignore_errors=True)


if __name__ == "__main__":
    sys.exit(main())
