"""C05 -- neighbour caching is transparent (spec/EGCache.tla)."""
from __future__ import annotations

import json
import os
import time

from . import tlc, explore, structural as ST, world as W, probes as P, checks_query as Q
from .common import Run, Machinery

ASSUME = [
    "cached answers are compared by TLC with EGQueries!Nb / the traversal operators evaluated on the real post-state, i.e. with "
    "what the uncached computation must return (C04/C06/C07 bind the uncached code to the same operators)",
    "filters used as memo keys are pure functions of link / vertex identity, one callable object per filter and world",
    "queries are asked only at vertices all of whose links are two-ended with two entries (elsewhere neighbors() raises "
    "IndexError with or without caching); mutations go through every state, memos are kept as warm as possible along the path",
]


def cfg_text(consts, rule, keys, emit=False, props=True):
    c = dict(consts)
    c.update({"Rule": rule, "KeySpec": "<-" + keys, "DoEmit": False, "HistLen": 0})
    return tlc.make_cfg(c, init="CInit", next_="CNext", view="CView", constraint="Bound",
                        invariants=["CacheCoherent"], properties=["Transparent", "MechCoversSem"] if props else [])


def model_runs(run, wd, tier):
    small = dict(ST.BASE, NL=1, MaxEnds=3, Kinds={"D", "U", "T"})
    two = dict(ST.BASE, NL=2, MaxEnds=2, Kinds={"D", "T"}, OnlyOps={"new", "setv", "unlink", "lunl", "ladd", "link"})
    cfgs = [("cache-2x1-keys4", small, "Keys4")]
    if tier == "thorough":
        cfgs.append(("cache-2x2-keys3", two, "Keys3"))
    for name, consts, keys in cfgs:
        res = tlc.run_tlc("EGCache", cfg_text(consts, "ends", keys), wd, workers=16, tag=f"model-{name}", timeout=3000)
        run.add_model(f"model:{name}", res, {"Rule": "ends", "KeySpec": keys})
    # negative control: the unrepaired invalidation rule must make TLC find a stale answer
    res = tlc.run_tlc("EGCache", cfg_text(small, "today", "Keys4"), wd, workers=16, tag="model-negctl",
                      allow_violation=True, timeout=600)
    if not res["violated"]:
        raise Machinery("negative control: EGCache with Rule=today did not violate CacheCoherent (invariant vacuous?)")
    run.extra["negative_control"] = "EGCache with Rule=\"today\" violates CacheCoherent as required"


def run_cached_config(run, name, consts, wd, spec, variant, builders=False):
    t0 = time.time()
    if builders:
        from . import checks_build
        gen = checks_build.gen(name, consts, wd, lemmas=False, workers=1, emit=True)
    else:
        gen = ST.generate(name, consts, wd)
    run.add_model(f"{name}[{variant}]", gen, {k: (sorted(v) if isinstance(v, set) else v) for k, v in consts.items()})
    index = gen.pop("index")
    init = ST.base_state(consts)
    t1 = time.time()
    agg = {"bad": 0, "judge_s": 0.0, "chunks": 0, "sampled": False}

    def probe_sink(probed):
        tj = time.time()
        agg["chunks"] += 1
        verdicts = Q.judge("C05", consts, probed, wd, f"{name}-{variant}-{agg['chunks']}")
        agg["judge_s"] += time.time() - tj
        by_id = {r["id"]: r for r in probed}
        for v in verdicts:
            r = by_id[v["id"]]
            cls = W.alias_class(r["pre"], r["call"])
            for j, e in zip(v["bad"], v["exp"]):
                p = r["probes"][j - 1]
                agg["bad"] += 1
                run.violation(f"{cls}|{r['variant']}|stale-{p['q']}",
                              f"after {r['call']['op']}{r['call']['a']} ({r['variant']}) cached {p['q']}{p['a']} answered "
                              f"{p['res']} but the uncached answer is {e}",
                              {"kind": "cache", "config": name, "variant": r["variant"], "spec": spec,
                               "consts": {k: (sorted(x) if isinstance(x, set) else x) for k, x in consts.items()},
                               "path": r["path"], "call": r["call"], "probe": {k: p[k] for k in ("q", "a", "f", "g", "M", "attr")},
                               "observed": p["res"], "expected": e})
        for r in probed:
            run.count_class(f"{W.alias_class(r['pre'], r['call'])}|{r['variant']}")
            run.evaluations += len(r["probes"])
        run.traces += len(probed)
        if not agg["sampled"] and probed:
            agg["sampled"] = True
            r = probed[len(probed) // 2]
            run.sample({"config": name, "variant": r["variant"], "path": r["path"], "call": r["call"],
                        "post": {k: r["S"][k] for k in ("kind", "ends", "vl")}, "answers": r["probes"][:3]})

    _, confirmed, st, _ = explore.explore(consts, init, index, index, caching=True, keep_records=False,
                                          cache_mode={"spec": spec, "variant": variant}, probe_sink=probe_sink)
    t2 = time.time()
    st.update({"probes_failing": agg["bad"], "variant": variant, "t_generate_s": round(t1 - t0, 1),
               "t_execute_and_judge_s": round(t2 - t1, 1), "t_judge_s": round(agg["judge_s"], 1)})
    run.extra.setdefault("executions", []).append({"config": name, **st})


def replay_file(path, wd):
    with open(path) as f:
        rp = json.load(f)
    consts = {k: (set(v) if isinstance(v, list) and k in ("Kinds", "Fams", "OnlyOps") else v) for k, v in rp["consts"].items()}
    if rp["kind"] == "cache-fresh":
        run = Run("C05", "quick", 0)
        fresh_stage(run, wd, "thorough", only=rp["history"])
        if run.violations:
            print(f"VIOLATION property=C05 replay={path}  # reproduced: {run.violations[0]['what'][:300]}")
            return 1
        print(f"replay of {path}: property C05 holds on the current tree")
        return 0
    if rp["kind"] == "cache":
        explore._G.update({"consts": consts, "init": ST.base_state(consts), "vcls": P.VERTEX_CLASSES["Vertex"]})
        pre, c, res, post, probes, variant = explore._run_cached(rp["path"], rp["call"], {"spec": rp["spec"], "variant": rp["variant"]})
        rec = {"id": 1, "S": post, "probes": probes, "path": rp["path"]}
    else:
        return replay_trace(rp, consts, wd, path)
    verdicts = Q.judge("C05", consts, [rec], wd, "replay", shards=1)
    print(json.dumps({"pre": pre, "call": c, "post": post}, indent=1)[:2000])
    if verdicts:
        print(f"VIOLATION property=C05 replay={path}  # reproduced: {json.dumps(verdicts[0])[:300]}")
        return 1
    print(f"replay of {path}: property C05 holds on the current tree")
    return 0


def replay_trace(rp, consts, wd, path):
    from . import cache_traces as CT
    return CT.replay(rp, consts, wd, path)


def c05(tier, seed, wd, replay=None):
    if replay:
        return replay_file(replay, wd)
    run = Run("C05", tier, seed)
    run.rule = ("(1) TLC checks CacheCoherent / Transparent / MechCoversSem on EGCache (all interleavings of every structural call, "
                "neighbors() queries and flag toggles over the pool) and that the unrepaired invalidation rule fails; (2) every "
                "transition of the structural configuration is executed on real objects with caching on and every memo warmed after "
                "every step of the path, then all queries are asked again with the flag on and TLC compares every cached answer with "
                "the operator evaluated on the real post-state; variants: flag on throughout / off only during the mutation / off "
                "during the build; (3) behaviours of EGCache generated by tlc -simulate (mutations, queries, toggles interleaved) "
                "are replayed and every answer judged; (4) graphs pickled with nrpickler are loaded in a fresh interpreter with the "
                "flag on, queried, mutated and queried again; class = call x aliasing pattern x variant; non-trivial = state changed")
    model_runs(run, wd, tier)
    full = tier == "thorough"
    spec = {"kind": "C05", "full": False}
    if tier == "quick":
        cfgs = [ST.cfg("links-2x2-DT", Kinds={"D", "T"}, MaxEnds=2)]
    else:
        cfgs = [ST.cfg("links-2x2-DUT", Kinds={"D", "U", "T"}, MaxEnds=2),
                ST.cfg("links-3x2-D", NV=3, InitBV=3, Kinds={"D"}, MaxEnds=2),
                ST.cfg("links-2x1-e3", NL=1, MaxEnds=3, UseN=False, Kinds={"D", "U"})]
    for name, consts in cfgs:
        if tier == "quick":
            run_cached_config(run, name, consts, wd, spec, "sampled")    # on / offmut / buildoff by hash
        else:
            for variant in ("on", "offmut", "buildoff", "off2"):
                run_cached_config(run, name, consts, wd, spec, variant)
    if full:
        run_cached_config(run, "links-2x2-DT-fullkeys", ST.cfg("x", Kinds={"D", "T"}, MaxEnds=2)[1], wd,
                          {"kind": "C05", "full": True}, "on")
    # the adjacency builders as mutators: memos warm, then load_adj_dict / load_adj_matrix over the same vertices
    from . import checks_build
    bc = checks_build.bcfg("builders-3v", PreDepth=1, MaxKeys=2 if full else 1, MaxVals=2, MaxSide=2 if full else 1,
                           MaxRows=2, MaxRowLen=2, BKinds={"D", "U"} if full else {"D"})
    run_cached_config(run, bc[0], bc[1], wd, spec, "sampled" if tier == "quick" else "on", builders=True)
    from . import cache_traces as CT
    CT.check(run, wd, tier, seed)
    fresh_stage(run, wd, tier)
    run.exhaustive = True
    run.assumptions = ASSUME
    mandatory = [lambda c: c.startswith("setv:") and "|on" in c,
                 lambda c: c.startswith("setv:") and "|offmut" in c,
                 lambda c: c.startswith("new:") and "|buildoff" in c,
                 lambda c: c.startswith("lunl:") and "|on" in c,
                 lambda c: c.startswith("ladd:"), lambda c: c.startswith("ladd:") and "|off2" in c,
                 lambda c: c.startswith("unlink:"),
                 lambda c: c.startswith("fresh-interpreter:") and "mutate-first" in c,
                 lambda c: c.startswith("trace:toggle"), lambda c: c.startswith("loaddict"), lambda c: c.startswith("loadmat")]
    return run.finish(nontrivial_filter=lambda c: True, mandatory=mandatory)


def C(op, k, *a):
    return {"op": op, "k": k, "a": list(a), "b": []}


FRESH = [  # (calls that build the graph here, calls made on the copy in the fresh interpreter)
    ([C("new", "D", 1, 2), C("new", "U", 2, 3)], [C("setv", "", 1, 2, 3)]),
    ([C("new", "D", 1, 2), C("new", "D", 2, 1)], [C("unlink", "", 1, 2, 1)]),
    ([C("new", "D", 1, 2), C("new", "T", 2, 3)], [C("new", "D", 3, 1)]),
    ([C("new", "U", 1, 1), C("new", "D", 1, 2)], [C("setv", "", 2, 1, 3), C("setv", "", 1, 2, 2)]),
    ([C("linkd", "", 1, 2, 0), C("linku", "", 2, 3, 0)], [C("linkd", "", 3, 1, 0), C("unlink", "", 2, 3, 0)]),
    ([C("new", "D", 1, 2), C("new", "D", 1, 3), C("new", "D", 1, 2)], [C("lunl", "", 2, 3), C("ladd", "", 2, 2)]),
]


def fresh_stage(run, wd, tier, only=None):
    """(4) 'whether the graph was built in this interpreter or un-pickled into a fresh one': graphs with WARM memos are
    dumped with nrpickler, loaded in a new interpreter with the flag on and - every other run - MUTATED BEFORE THE FIRST
    QUERY there; all answers afterwards are judged against the operators on the copy's own projection."""
    from . import pickle_exec as PX, checks_pickle as CP, checks_query as Q, render_exec  # noqa: F401 (render_exec registers the mixed vertex pool)
    from edgegraph.structure import Vertex
    consts = ST.cfg("fresh-3x3", NV=3, InitBV=3, NL=3, Kinds={"D", "U", "T"}, MaxEnds=3)[1]
    recs, owner = [], {}
    flag = Vertex.NEIGHBOR_CACHING
    try:
        for hi, (path, calls) in enumerate(FRESH):
            if only is not None and hi != only:
                continue
            for qf in ((False, True) if tier == "thorough" or hi % 3 == 0 else (False,)):
                loader, proto = ("pickle", "dill")[hi % 2], (2, 4, 5)[hi % 3]
                w = CP.build(consts, path, True)
                P.run(w, w.project(), {"kind": "C05", "full": False, "nofilter": True})       # warm every memo
                out = PX.roundtrip_fresh(w, proto, loader, True, calls, wd, f"c05-{os.getpid()}-{hi}-{int(qf)}", query_first=qf)
                cls = f"fresh-interpreter:{loader},proto{proto},{'query-first' if qf else 'mutate-first'}"
                run.count_class(cls)
                rp = {"kind": "cache-fresh", "consts": {k: (sorted(x) if isinstance(x, set) else x) for k, x in consts.items()},
                      "history": hi, "query_first": qf}
                if out.get("err"):
                    run.violation(f"{cls}|{out['err']}", f"using the un-pickled copy in a fresh interpreter raised {out['err']}: {out.get('trace', '')[-200:]}", rp)
                    continue
                for S, probes in ((out["post"], out["probes_before"]), (out["state_after"], out["probes_after"])):
                    if probes:
                        S = {k: v for k, v in S.items() if k != "decor"}
                        recs.append({"id": len(recs) + 1, "S": S, "probes": probes})
                        owner[len(recs)] = (cls, rp)
    finally:
        Vertex.NEIGHBOR_CACHING = flag
    for v in Q.judge("C05", consts, recs, wd, "fresh", shards=1):
        cls, rp = owner[v["id"]]
        run.violation(f"{cls}|stale", f"cached query on a copy un-pickled into a fresh interpreter deviates: {json.dumps(v)[:300]}", rp)
    run.traces += len(recs)
    run.extra["fresh_interpreter_runs"] = len(owner)


CHECKS = {"C05": c05}
