"""Shared plumbing for the checks: work dirs, evidence, replay files, known findings, verdicts."""
from __future__ import annotations

import hashlib
import json
import os
import shutil
import sys
import time

VERIF = os.environ.get("VERIF_ROOT", "/verif")
EVIDENCE_DIR = os.environ.get("VERIF_EVIDENCE_DIR", os.path.join(VERIF, "evidence"))   # overridden by the seeded-change runner
REPLAY_DIR = os.environ.get("VERIF_REPLAY_DIR", os.path.join(VERIF, "replays"))
KNOWN_FILE = os.path.join(VERIF, "known_findings.json")


class Machinery(Exception):
    """The framework itself failed (exit 2) -- never reported as a violation."""


def workdir(prop: str) -> str:
    root = os.path.join(VERIF, ".work")
    # scratch of runs that were killed (their pid is the suffix): TLC state directories can be gigabytes
    for old in (os.listdir(root) if os.path.isdir(root) else []):
        pid = old.rsplit("-", 1)[-1]
        if pid.isdigit() and not os.path.exists(f"/proc/{pid}"):
            shutil.rmtree(os.path.join(root, old), ignore_errors=True)
    d = os.path.join(root, f"{prop}-{os.getpid()}")
    shutil.rmtree(d, ignore_errors=True)
    os.makedirs(d)
    return d


def load_known():
    if not os.path.exists(KNOWN_FILE):
        return {"known": [], "fixed": []}
    with open(KNOWN_FILE) as f:
        return json.load(f)


def digest(obj) -> str:
    return hashlib.sha1(json.dumps(obj, sort_keys=True).encode()).hexdigest()[:12]


class Run:
    """Collects what one check run did and turns it into evidence + exit status."""

    def __init__(self, prop: str, tier: str, seed: int, level="model_checking"):
        self.prop, self.tier, self.seed, self.level = prop, tier, seed, level
        self.t0 = time.time()
        self.states = 0
        self.transitions = 0
        self.traces = 0
        self.evaluations = 0
        self.classes = {}          # aliasing class -> count
        self.samples = []
        self.violations = []       # dicts: signature, what, replay (dict)
        self.assumptions = []
        self.extra = {}
        self.rule = ""
        self.exhaustive = False
        self.notes = []
        self.model_runs = []

    def add_model(self, name, res, consts=None):
        self.states += res["distinct"]
        self.transitions += res["generated"]
        self.model_runs.append({"config": name, "distinct_states": res["distinct"],
                                "transitions": res["generated"], "depth": res["depth"],
                                "wall_s": round(res["wall_s"], 1), "constants": consts})

    def count_class(self, cls, n=1):
        self.classes[cls] = self.classes.get(cls, 0) + n

    def sample(self, s, limit=6):
        if len(self.samples) < limit:
            self.samples.append(s)

    def violation(self, signature: str, what: str, replay: dict):
        self.violations.append({"signature": signature, "what": what, "replay": replay})

    def finish(self, nontrivial_filter=None, mandatory=()):
        """Write evidence, print verdict lines, return exit code."""
        known = load_known()
        kn = [k for k in known.get("known", []) if k["property"] == self.prop]
        unknown, known_hits = [], {}
        for v in self.violations:
            hit = next((k for k in kn if k["signature"] == v["signature"]), None)
            if hit:
                known_hits.setdefault(hit["signature"], hit)
            else:
                unknown.append(v)
        for sig, k in known_hits.items():
            print(f"KNOWN-FINDING: property={self.prop} {k['what']} [{sig}]")
        # replay files for unknown violations: at most 3 per signature, 30 in all
        os.makedirs(REPLAY_DIR, exist_ok=True)
        per_sig, written = {}, 0
        lines = []
        for v in unknown:
            n = per_sig.get(v["signature"], 0)
            per_sig[v["signature"]] = n + 1
            if n >= 3 or written >= 30:
                continue
            rp = dict(v["replay"])
            rp.update({"property": self.prop, "signature": v["signature"], "what": v["what"]})
            path = os.path.join(REPLAY_DIR, f"{self.prop}-{digest(rp)}.json")
            with open(path, "w") as f:
                json.dump(rp, f, indent=1, sort_keys=True)
            written += 1
            lines.append(f"VIOLATION property={self.prop} replay={path}  # {v['what']} [{v['signature']}]")
        for ln in lines:
            print(ln)
        if unknown and not lines:  # pragma: no cover
            print(f"VIOLATION property={self.prop} replay=none")
        missing = [m for m in mandatory if not any(m(c) for c in self.classes)] if mandatory else []
        nontriv = [c for c in self.classes if (nontrivial_filter(c) if nontrivial_filter else True)]
        cov = {
            "states": self.states, "transitions": self.transitions,
            "traces_validated_against_impl": self.traces,
            "evaluations": self.evaluations,
            "distinct_nontrivial": len(nontriv),
            "rule": self.rule,
            "samples": self.samples or [{"note": "no sample recorded"}],
            "exhaustive": self.exhaustive,
            "model_runs": self.model_runs,
            "classes_total": len(self.classes),
            # every class with its count when there are few; otherwise an evenly spaced sample of 200 of them
            "classes": (dict(sorted(self.classes.items())) if len(self.classes) <= 200
                        else dict(sorted(self.classes.items())[:: max(1, len(self.classes) // 200)])),
            "violation_signatures": {s: n for s, n in per_sig.items()},
            "known_finding_signatures": sorted(known_hits),
        }
        cov.update(self.extra)
        ev = {"property_id": self.prop, "tier": self.tier, "seed": self.seed, "level": self.level,
              "coverage": cov, "assumptions": self.assumptions,
              "wall_s": round(time.time() - self.t0, 2), "violations": len(unknown)}
        os.makedirs(EVIDENCE_DIR, exist_ok=True)
        with open(os.path.join(EVIDENCE_DIR, f"{self.prop}.json"), "w") as f:
            json.dump(ev, f, indent=1)
        for n in self.notes:
            print("note:", n)
        print(f"{self.prop} [{self.tier}] states={self.states} transitions={self.transitions} "
              f"records_judged={self.traces} classes={len(self.classes)} violations={len(unknown)} "
              f"known={len(known_hits)} wall={ev['wall_s']}s")
        if missing and not unknown:          # a reported violation takes precedence over the vacuity guard
            raise Machinery(f"vacuity guard: {len(missing)} mandatory aliasing class(es) have no record")
        return 1 if unknown else 0


import contextlib


@contextlib.contextmanager
def worker_pool(ctx, procs, **kw):
    """a multiprocessing pool whose workers EXIT (close + join) when everything went well, instead of being killed
    (Pool.__exit__ terminates): workers that end normally also let measuring tools write what they collected"""
    pool = ctx.Pool(procs, **kw)
    try:
        yield pool
    except BaseException:
        pool.terminate()
        pool.join()
        raise
    else:
        pool.close()
        pool.join()


def die_machinery(msg):
    print(f"MACHINERY-FAILURE: {msg}", file=sys.stderr)
    sys.exit(2)
