"""Checks C01, C02, C03, C19: generate (TLC) -> execute (real edgegraph) -> judge (TLC)."""
from __future__ import annotations

import json
import os
from concurrent.futures import ThreadPoolExecutor

from . import tlc, explore, world as W
from .common import Run, Machinery

BASE = {"NV": 2, "NU": 0, "NL": 2, "NLaw": 0, "Kinds": {"D", "U", "T"}, "UseN": False,
        "MaxEnds": 2, "MaxArg": 2, "Fams": {"link", "expl"}, "InitBV": 2, "InitBU": 0,
        "UniEnds": False, "DoEmit": True, "OnlyOps": set(), "AllowNone": True}

MODEL_INVARIANTS = ["InvType", "InvLinkSym", "InvNoDupLinks", "InvUniSym", "InvNoDupMembers",
                    "InvNoDupUnis", "InvLawsSym"]
MODEL_PROPERTIES = ["InsertionOrder", "RaiseIsAtomic", "FrameLinks", "FrameUnis", "FrameLaws",
                    "FrameOtherVertices"]


def cfg(name, **kw):
    c = dict(BASE)
    c.update(kw)
    return name, c


def base_state(c):
    NV, NU, NL, NLaw = c["NV"], c["NU"], c["NL"], c["NLaw"]
    nv, nu = c["InitBV"], c["InitBU"]
    return {"nl": 0, "kind": [""] * NL, "ends": [[] for _ in range(NL)],
            "vl": [[] for _ in range(NV + NU)], "unis": [[] for _ in range(NV + NU)],
            "members": [[] for _ in range(NU)],
            "laws": [k if k <= nu else 0 for k in range(1, NU + 1)],
            "app": [NV + L if L <= nu else 0 for L in range(1, NLaw + 1)],
            "bv": nv, "bu": nu,
            "bl": [(L <= nu) or (L > NU) for L in range(1, NLaw + 1)]}


def generate(name, consts, wd, simulate=None, depth=None, seed=None, timeout=1800):
    """E1: model-check the design-level properties and emit every transition."""
    text = tlc.make_cfg(consts, invariants=MODEL_INVARIANTS, properties=[] if simulate else MODEL_PROPERTIES,
                        constraint="Bound", action_constraint="Emit", view="View")
    index = explore.TransIndex()
    res = tlc.run_tlc("MC_Struct", text, wd, workers=1, tag=f"gen-{name}", simulate=simulate,
                      depth=depth, seed=seed, timeout=timeout, on_json=index.add, keep_stdout=False)
    if not index.n:
        raise Machinery(f"generator {name} emitted nothing")
    res["index"] = index
    return res


def judge(prop, consts, records, wd, name, shards=8, module="JudgeStruct", fields=("id", "pre", "c", "res", "post")):
    """E3: TLC evaluates the property's predicate on every record.  Returns verdict dicts."""
    if not records:
        return []
    jc = {k: consts[k] for k in ("NV", "NU", "NL", "NLaw")}
    jc["Prop"] = prop
    text = tlc.make_cfg(jc, invariants=["Judged"])
    n = max(1, min(shards, (len(records) + 1999) // 2000))
    size = (len(records) + n - 1) // n
    parts = [records[i:i + size] for i in range(0, len(records), size)]

    def one(ix):
        part = parts[ix]
        path = os.path.join(wd, f"recs-{name}-{ix}.json")
        with open(path, "w") as f:
            json.dump([{k: r[k] for k in fields} for r in part], f)
        r = tlc.run_tlc(module, text, wd, workers=1, tag=f"judge-{name}-{ix}",
                        env={"EG_RECORDS": path}, heap="3g")
        if r["distinct"] != len(part):
            raise Machinery(f"judge examined {r['distinct']} of {len(part)} records ({name}/{ix})")
        os.remove(path)
        return r["json"]

    out = []
    with ThreadPoolExecutor(max_workers=n) as ex:
        for js in ex.map(one, range(len(parts))):
            out.extend(js)
    return out


def judge_mechanism(consts, records, wd, name):
    """informational: does the real code enter its internal methods the way EGStructureImpl says?"""
    recs = [{k: r[k] for k in ("id", "pre", "c", "res", "post", "entered")} for r in records if "entered" in r]
    if not recs:
        return 0, []
    jc = {k: consts[k] for k in ("NV", "NU", "NL", "NLaw")}
    jc.update({"Variant": "fixed", "ImplKinds": {"D"}, "ImplOps": {"new"}, "TraceMode": True})
    text = tlc.make_cfg(jc, init="JInit", next_="JNext", invariants=["Conforms"])
    path = os.path.join(wd, f"impl-{name}.json")
    with open(path, "w") as f:
        json.dump(recs, f)
    r = tlc.run_tlc("JudgeImpl", text, wd, workers=8, tag=f"impl-{name}", env={"EG_RECORDS": path}, heap="4g", timeout=1800)
    os.remove(path)
    devs = [j for j in r["json"] if "id" in j]
    return len(recs), devs


def run_config(run: Run, prop, name, consts, wd, *, caching=False, simulate=None, depth=None, seed=None, impl=False):
    import time as _t
    t0 = _t.time()
    gen = generate(name, consts, wd, simulate=simulate, depth=depth, seed=seed)
    t1 = _t.time()
    run.add_model(name + ("+cache" if caching else ""), gen,
                  {k: (sorted(v) if isinstance(v, set) else v) for k, v in consts.items()})
    index = gen.pop("index")
    init = base_state(consts)
    if W.key(init) not in index:
        raise Machinery("executor's initial projection is not the model's initial state")
    agg = {"skipped_pre": 0, "skipped_domain": 0, "bad": 0, "judge_s": 0.0, "nontrivial": set(), "chunks": 0, "sample": None,
           "mech_calls": 0, "mech_devs": []}
    confirmed_ref = {}

    def sink(records):
        tj = _t.time()
        agg["chunks"] += 1
        verdicts = judge(prop, consts, records, wd, f"{name}-{agg['chunks']}")
        agg["judge_s"] += _t.time() - tj
        by_id = {r["id"]: r for r in records}
        for v in verdicts:
            r = by_id[v["id"]]
            if "skip" in v:
                agg["skipped_" + v["skip"]] += 1
                continue
            agg["bad"] += 1
            sig = f"{r['cls']}|{'+'.join(sorted(v['fail']))}"
            run.violation(sig, f"{r['c']['op']}{r['c']['a']} violates {'+'.join(sorted(v['fail']))}",
                          {"kind": "structural", "config": name,
                           "consts": {k: (sorted(x) if isinstance(x, set) else x) for k, x in consts.items()},
                           "caching": caching, "path": confirmed_ref["c"].get(W.key(r["pre"])), "call": r["c"],
                           "observed": {"pre": r["pre"], "res": r["res"], "post": r["post"]},
                           "fail": v["fail"], "expected": v.get("exp")})
        if impl and agg["mech_calls"] < 40000:
            n, devs = judge_mechanism(consts, records, wd, f"{name}-{agg['chunks']}")
            agg["mech_calls"] += n
            agg["mech_devs"].extend(devs[:5])
        for r in records:
            run.count_class(r["cls"])
            if r["pre"] != r["post"] or r["res"]["err"]:
                agg["nontrivial"].add(r["cls"])
        run.traces += len(records)
        run.evaluations += len(records)
        if agg["sample"] is None and records:
            r = records[len(records) // 2]
            agg["sample"] = True
            run.sample({"config": name, "caching": caching, "pre": r["pre"], "call": r["c"], "res": r["res"], "post": r["post"]})

    # explore shares its `confirmed` map through confirmed_ref, so the sink can attach replay paths
    from . import impl_trace
    records, confirmed, st = explore.explore(consts, init, index, index, caching=caching, sink=sink,
                                             confirmed_out=confirmed_ref,
                                             impl=sorted(impl_trace.IMPL_OPS) if impl else None)
    if impl:
        run.extra.setdefault("mechanism_conformance", []).append(
            {"config": name, "calls_examined": agg["mech_calls"], "deviations": len(agg["mech_devs"]),
             "first_deviations": agg["mech_devs"][:3],
             "note": "informational: internal call sequence of the real code vs spec/EGStructureImpl.tla (never an alarm)"})
    t2 = _t.time()
    st.update({"skipped_pre_not_invariant": agg["skipped_pre"], "skipped_out_of_domain": agg["skipped_domain"],
               "records_failing": agg["bad"], "t_generate_s": round(t1 - t0, 1),
               "t_execute_and_judge_s": round(t2 - t1, 1), "t_judge_s": round(agg["judge_s"], 1)})
    run.extra.setdefault("executions", []).append({"config": name, "caching": caching, **st})
    return agg["nontrivial"], st
