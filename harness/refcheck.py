"""False-alarm test: run EVERY check's quick tier against behaviour-preserving refactorings.

    /venv/bin/python -m harness.refcheck <name> <patch.diff> [checks...]

The patch is applied in a scratch worktree of /repo (never in /repo); a check that exits non-zero on a
refactoring whose behaviour is unchanged is a false alarm of the machinery (or the refactoring is not
behaviour-preserving after all: decide by reading the replay)."""
import json
import os
import subprocess
import sys
import time

REPO = "/repo"
OUT = "/verif/seeded/refactorings"


def sh(cmd, **kw):
    return subprocess.run(cmd, shell=True, capture_output=True, text=True, **kw)


def main():
    name, patch = sys.argv[1], sys.argv[2]
    props = sys.argv[3:] or [json.loads(l)["id"] for l in open("/verif/properties.jsonl")]
    wt = f"/tmp/verif-ref-wt-{os.getpid()}"
    sh(f"git -C {REPO} worktree remove --force {wt}")
    r = sh(f"git -C {REPO} worktree add --detach {wt} HEAD")
    if r.returncode:
        print(r.stderr)
        return 2
    try:
        ap = sh(f"git -C {wt} apply {patch}")
        if ap.returncode:
            print("patch does not apply:", ap.stderr[:300])
            return 2
        d = os.path.join(OUT, name)
        os.makedirs(d, exist_ok=True)
        sh(f"cp {patch} {d}/patch.diff")
        res_path = os.path.join(d, "results.json")
        results = json.load(open(res_path)) if os.path.exists(res_path) else {}
        for prop in props:
            t0 = time.time()
            env = dict(os.environ, VERIF_SEED="1", VERIF_REPO=wt, VERIF_EVIDENCE_DIR=f"/tmp/verif-ref-out-{os.getpid()}/evidence",
                       VERIF_REPLAY_DIR=f"{d}/replays")
            p = sh(f"/venv/bin/python /verif/check.py {prop} --tier quick", env=env)
            first = next((l for l in p.stdout.splitlines() if l.startswith("VIOLATION")), "")
            mach = next((l for l in p.stderr.splitlines() if "MACHINERY" in l), "")
            results[prop] = {"exit": p.returncode, "violation": first[:300], "machinery": mach[:300], "wall_s": round(time.time() - t0, 1)}
            print(f"{name}: {prop} exit={p.returncode} {first[:140]} {mach[:140]}", flush=True)
            json.dump(results, open(res_path, "w"), indent=1, sort_keys=True)
    finally:
        sh(f"git -C {REPO} worktree remove --force {wt}")
    return 0


if __name__ == "__main__":
    sys.exit(main())
