"""Beyond the listed properties: plantuml.render_to_image / is_plantuml_installed against spec/EGImage.tla.

The environment of the model (command missing / not executable / failing / silent, unencodable source, missing
destination directory) is built for real: a fake PlantUML command (a shell script) that logs how it was started
and what it read, a private temp root (tempfile.tempdir), and a destination directory.  Every call is one record;
TLC judges it against `Final` / `Installed`, which TLC has tied to the statement-level machine (MachineIsFinal)."""
from __future__ import annotations

import itertools
import json
import os
import shutil
import stat
import tempfile

from . import tlc
from .common import Machinery

NAMES = ["a.png", ".png", "a.PNG", "png", "", "a.png ", "dir.png/b.png", "ü.png"]
SRCS = ["", "@s", "@startuml\nobject é\n@enduml\n", "@\udc00"]
TOOLS = ["ok", "fail", "missing", "notexec", "noout"]
DESTS = ["fresh", "exists", "missingdir"]

SCRIPT = """#!/bin/sh
# fake PlantUML: log the invocation, then behave as configured
log="{log}"
n=$(ls "$log" | wc -l)
d="$log/$n"
mkdir "$d"
for a in "$@"; do printf '%s\\n' "$a" >> "$d/argv"; last="$a"; done
printf '%s' "${{DISPLAY-unset}}" > "$d/display"
printf '%s' "${{EGX-unset}}" > "$d/egx"
if [ "$last" = "-version" ]; then exit {vrc}; fi
cp "$last" "$d/seen" 2>/dev/null
{body}
"""
BODIES = {"ok": 'printf NEWPNG > "$(dirname "$last")/in.png"\nexit 0', "fail": "exit 3", "noout": "exit 0"}


def make_tool(root, mode):
    path = os.path.join(root, "bin", f"tool-{mode}")
    os.makedirs(os.path.dirname(path), exist_ok=True)
    if mode == "missing":
        return path
    with open(path, "w") as f:
        f.write(SCRIPT.format(log=os.path.join(root, "log"), vrc=3 if mode == "fail" else 0, body=BODIES.get(mode, "exit 0")))
    os.chmod(path, 0o644 if mode == "notexec" else 0o755)
    return path


def one(root, fn, name, src, tool, dest, extra_args, extra_env):
    from edgegraph.output import plantuml
    for d in ("log", "tmp", "outdir", "bin"):
        shutil.rmtree(os.path.join(root, d), ignore_errors=True)
    for d in ("log", "tmp", "outdir"):
        os.makedirs(os.path.join(root, d))
    cmd = make_tool(root, tool)
    outdir = os.path.join(root, "outdir" if dest != "missingdir" else "nodir")
    out_file = os.path.join(outdir, name)
    if dest == "exists":
        if name and not name.endswith("/"):
            os.makedirs(os.path.dirname(out_file), exist_ok=True)
            with open(out_file, "w") as f:
                f.write("OLD")
        else:
            dest = "fresh"              # the path is the directory itself: there is nothing to pre-create
    elif dest == "fresh" and "/" in name:
        os.makedirs(os.path.dirname(out_file), exist_ok=True)
    made = []
    real_mkdtemp = tempfile.mkdtemp

    def counting(*a, **k):
        p = real_mkdtemp(*a, **k)
        made.append(p)
        return p

    saved = (tempfile.tempdir, list(plantuml.PLANTUML_INVOKE_ARGS), dict(plantuml.PLANTUML_INVOKE_ENV))
    tempfile.tempdir = os.path.join(root, "tmp")
    tempfile.mkdtemp = counting
    plantuml.PLANTUML_INVOKE_ARGS[:] = extra_args
    plantuml.PLANTUML_INVOKE_ENV.update(extra_env)
    rec = {"fn": fn, "name": [ord(c) for c in name], "src": [ord(c) for c in src], "tool": tool, "dest": dest, "exc": "", "out": "none"}
    try:
        try:
            if fn == "render":
                r = plantuml.render_to_image(src, out_file, cmd)
                if r is not None:
                    rec["exc"] = "returned-a-value"
            else:
                rec["out"] = plantuml.is_plantuml_installed(cmd)
        except Exception as exc:        # noqa: BLE001 - the class is the observation
            rec["exc"] = type(exc).__name__
            if fn != "render":
                rec["out"] = False
    finally:
        tempfile.tempdir = saved[0]
        tempfile.mkdtemp = real_mkdtemp
        plantuml.PLANTUML_INVOKE_ARGS[:] = saved[1]
        plantuml.PLANTUML_INVOKE_ENV.clear()
        plantuml.PLANTUML_INVOKE_ENV.update(saved[2])
    runs = sorted(os.listdir(os.path.join(root, "log")))
    rec["runs"] = len(runs)
    rec["left"] = len(os.listdir(os.path.join(root, "tmp")))
    rec["made"] = len(made)
    if fn == "render":
        if os.path.isfile(out_file):
            rec["out"] = {"OLD": "old", "NEWPNG": "new"}.get(open(out_file).read(), "other")
        else:
            rec["out"] = "none"
    rec["saw_src"] = rec["argv_ok"] = rec["env_ok"] = rec["in_tmp"] = False
    if runs:
        d = os.path.join(root, "log", runs[0])
        argv = open(os.path.join(d, "argv")).read().split("\n")[:-1]
        last = argv[-1] if argv else ""
        rec["env_ok"] = open(os.path.join(d, "display")).read() == "" and open(os.path.join(d, "egx")).read() == extra_env.get("EGX", "unset")
        if fn == "render":
            rec["argv_ok"] = argv[:-1] == extra_args and len(argv) == len(extra_args) + 1
            rec["in_tmp"] = os.path.dirname(last) in made and os.path.dirname(os.path.dirname(last)) == os.path.join(root, "tmp")
            try:
                rec["saw_src"] = open(os.path.join(d, "seen"), "rb").read() == src.encode("utf-8")
            except (OSError, UnicodeEncodeError):
                rec["saw_src"] = False
        else:
            rec["argv_ok"] = argv == extra_args + ["-version"]
    return rec


def scenarios(tier):
    variants = [([], {}), (["-DX=1", "-v"], {"EGX": "1"})]
    for name, src, tool, dest in itertools.product(NAMES, SRCS, TOOLS, DESTS):
        for k, (a, e) in enumerate(variants):
            if tier == "quick" and (NAMES.index(name) + SRCS.index(src) + TOOLS.index(tool) + DESTS.index(dest) + k) % 3:
                continue
            yield "render", name, src, tool, dest, a, e
    for tool in TOOLS:
        for a, e in variants:
            yield "installed", "", "", tool, "fresh", a, e


def model(wd, run=None):
    """TLC on the statement-level machine: invariants + termination; the negative control must be refuted."""
    invs = ["TypeOK", "TmpRemovedOnEveryExit", "ValidationBeforeEffects", "RunsOnWrittenSource", "PictureOnlyOnSuccess",
            "OldPictureKeptOnFailure", "MachineIsFinal"]
    res = tlc.run_tlc("EGImage", tlc.make_cfg({"Cleanup": "always"}, spec="Spec", invariants=invs, properties=["Terminates"], deadlock=False),
                      wd, workers=4, tag="image-model", heap="1g")
    neg = tlc.run_tlc("EGImage", tlc.make_cfg({"Cleanup": "success-only"}, spec="Spec", invariants=["TmpRemovedOnEveryExit"], deadlock=False),
                      wd, workers=1, tag="image-neg", heap="1g", allow_violation=True)
    if not neg.get("violated"):
        raise Machinery("EGImage: the negative control Cleanup=success-only was not refuted")
    if run is not None:
        run.add_model("EGImage(always)", res, {"Cleanup": "always"})
    return res


def check(run, wd, seed, tier):
    model(wd, run)
    root = os.path.join(wd, "image-root")
    os.makedirs(root, exist_ok=True)
    recs = []
    for sc in scenarios(tier):
        r = one(root, *sc)
        r["id"] = len(recs) + 1
        recs.append(r)
    shutil.rmtree(root, ignore_errors=True)
    path = os.path.join(wd, "image-recs.json")
    with open(path, "w") as f:
        json.dump(recs, f)
    res = tlc.run_tlc("EGImage", tlc.make_cfg({"Cleanup": "always"}, init="JInit", next_="JNext", invariants=["Judged"]), wd,
                      workers=1, tag="image-judge", env={"EG_RECORDS": path}, heap="2g")
    if res["distinct"] != len(recs):
        raise Machinery("EGImage judge did not visit every record")
    os.remove(path)
    bad = [(recs[v["id"] - 1], v) for v in res["json"]]
    classes = {}
    for r in recs:
        k = f"{r['fn']}:{r['tool']}:{r['exc'] or 'ok'}"
        classes[k] = classes.get(k, 0) + 1
    run.extra["render_to_image"] = {"calls_judged": len(recs), "deviations": len(bad), "outcome_classes": classes,
                                    "first_deviations": [{"record": r, "fail": v["fail"]} for r, v in bad[:3]],
                                    "note": "beyond the listed properties: render_to_image / is_plantuml_installed with a fake PlantUML "
                                            "command in every failure mode (spec/EGImage.tla); informational"}
    return bad
