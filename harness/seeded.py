"""Runs the registered checks against the seeded changes in /verif/seeded/<name>/ and writes RESULTS.md.

    /venv/bin/python -m harness.seeded [name ...] [--tier quick] [--all-checks]

For each seeded change: confirm /repo is clean, `git apply` the patch, run the check of the property it
breaks (and, with --all-checks, every other check), record exit status and the first VIOLATION line, then
`git checkout -- .` straight away.  Nothing is ever committed to /repo.
"""
from __future__ import annotations

import json
import os
import subprocess
import sys
import time

SEEDED = "/verif/seeded"
REPO = "/repo"
SCRATCH = f"/tmp/verif-seeded-wt-{os.getpid()}"      # with --scratch: a worktree outside /repo, so /repo itself stays untouched


def sh(cmd, **kw):
    return subprocess.run(cmd, shell=True, capture_output=True, text=True, **kw)


def _load(path):
    for _ in range(20):
        try:
            with open(path) as f:
                return json.load(f)
        except FileNotFoundError:
            return {}
        except json.JSONDecodeError:
            time.sleep(0.2)
    return {}


def clean():
    return sh(f"git -C {REPO} status --porcelain -- edgegraph").stdout.strip() == ""


def run_check(prop, tier, repo=REPO):
    t0 = time.time()
    p = sh(f"/venv/bin/python /verif/check.py {prop} --tier {tier}", env=dict(os.environ, VERIF_SEED="1", VERIF_REPO=repo, VERIF_EVIDENCE_DIR=f"/tmp/verif-seeded-out-{os.getpid()}/evidence",
                                                                              VERIF_REPLAY_DIR=f"/tmp/verif-seeded-out-{os.getpid()}/replays"))
    first = next((l for l in p.stdout.splitlines() if l.startswith("VIOLATION")), "")
    return p.returncode, first, round(time.time() - t0, 1)


def main():
    args = [a for a in sys.argv[1:] if not a.startswith("--")]
    tier = "quick"
    if "--tier" in sys.argv:
        tier = sys.argv[sys.argv.index("--tier") + 1]
        args = [a for a in args if a != tier]
    allchecks = "--all-checks" in sys.argv
    repo = REPO
    if "--scratch" in sys.argv:
        repo = SCRATCH
        sh(f"git -C {REPO} worktree remove --force {SCRATCH}")
        r = sh(f"git -C {REPO} worktree add --detach {SCRATCH} HEAD")
        if r.returncode:
            print(r.stderr)
            return 2
    names = args or sorted(d for d in os.listdir(SEEDED) if os.path.isdir(os.path.join(SEEDED, d)))
    results_path = os.path.join(SEEDED, "results.json")
    results = _load(results_path)
    props = [json.loads(l)["id"] for l in open("/verif/properties.jsonl")]
    for name in names:
        d = os.path.join(SEEDED, name)
        meta = json.load(open(os.path.join(d, "meta.json")))
        if repo == REPO and not clean():
            print("refusing: /repo has local changes under edgegraph/")
            return 2
        ap = sh(f"git -C {repo} apply {d}/patch.diff")
        if ap.returncode:
            print(f"{name}: patch does not apply: {ap.stderr[:200]}")
            results[name] = {"property": meta["property"], "applies": False}
            continue
        try:
            todo = [meta["property"]] + ([p for p in props if p != meta["property"]] if allchecks else [])
            res = results.get(name, {"property": meta["property"]})
            res["applies"] = True
            res.setdefault("checks", {})
            for prop in todo:
                rc, first, wall = run_check(prop, tier, repo)
                res["checks"][prop] = {"tier": tier, "exit": rc, "violation": first[:300], "wall_s": wall}
                print(f"{name}: check {prop} [{tier}] exit={rc} {first[:160]}")
            results[name] = res
        finally:
            sh(f"git -C {repo} checkout -- .")
        cur = _load(results_path)
        cur[name] = results[name]
        tmp = results_path + f".{os.getpid()}.tmp"         # several runners may share the file: replace it atomically
        with open(tmp, "w") as f:
            json.dump(cur, f, indent=1, sort_keys=True)
        os.replace(tmp, results_path)
    results = _load(results_path) or results
    if repo == SCRATCH:
        sh(f"git -C {REPO} worktree remove --force {SCRATCH}")
    write_md(results)
    return 0


def write_md(results):
    lines = ["# Seeded changes and the checks that catch them", "",
             "Each change was written by an independent sub-agent that saw only the text of one property and a scratch",
             "worktree; it compiles, passes the repository's 654 tests, and comes with a demonstration that fails with",
             "the change and passes without it (re-confirmed here before it was kept).  `exit=1` = the check reported a",
             "VIOLATION with the change applied; every check exits 0 on the unchanged tree.", "",
             "| seeded change | breaks | what it needs to manifest | own check (quick) | other checks that also catch it |",
             "|---|---|---|---|---|"]
    for name in sorted(results):
        r = results[name]
        d = os.path.join(SEEDED, name)
        meta = json.load(open(os.path.join(d, "meta.json")))
        own = r.get("checks", {}).get(r["property"], {})
        others = [p for p, c in r.get("checks", {}).items() if p != r["property"] and c["exit"] == 1]
        status = {1: "caught", 0: "MISSED", 2: "machinery failure"}.get(own.get("exit"), "not run")
        lines.append(f"| `{name}` | {r['property']} | {meta.get('needs', '')[:140].replace('|', '/')} | {status} ({own.get('tier', '')}, {own.get('wall_s', '')} s) | {', '.join(others) or '-'} |")
    open(os.path.join(SEEDED, "RESULTS.md"), "w").write("\n".join(lines) + "\n")


if __name__ == "__main__":
    sys.exit(main())
