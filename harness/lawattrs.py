"""C19, second clause: rule attributes of a law set read back what was passed and cannot be changed.

Executor side only: builds UniverseLaws objects from a menu of argument values, reads the five
public attributes, tries to assign each, binds the law set to universes and reads again.  Values are
abstracted into menu ids; the verdict is TLC's (spec/EGLaws.tla)."""
from __future__ import annotations

import itertools
import json
import os

from . import tlc
from .common import Machinery

ATTRS = ["edge_whitelist", "mixed_links", "cycles", "multipath", "multiverse"]


def menu():
    from edgegraph.structure import Vertex, Universe, DirectedEdge, UnDirectedEdge
    wl = [{}, {Vertex: {Vertex: DirectedEdge}},
          {Vertex: {Vertex: UnDirectedEdge, Universe: DirectedEdge}, Universe: {}}]
    return [None, None, False, True] + wl      # index = id; id 0 unused ("omitted")


def to_id(val, m):
    if val is None:
        return 1
    if val is False:
        return 2
    if val is True:
        return 3
    try:
        plain = {k: dict(v) for k, v in dict(val).items()}
    except Exception:
        return -1
    for i in range(4, len(m)):
        if plain == m[i]:
            return i
    return -1


def observe(given, variant=0):
    """given: list of 5 menu ids (0 = omit)."""
    from edgegraph.structure import Universe
    from edgegraph.structure.universe import UniverseLaws
    import copy
    m = menu()
    kwargs = {a: copy.deepcopy(m[g]) if g >= 4 else m[g] for a, g in zip(ATTRS, given) if g != 0}
    if variant == 2 and given[0] >= 4:
        # the whitelist READ FROM ANOTHER law set (whatever read-only mapping the accessor hands out) passed back in
        kwargs["edge_whitelist"] = UniverseLaws(edge_whitelist=kwargs["edge_whitelist"]).edge_whitelist
    try:
        if variant == 1 and all(g != 0 for g in given):      # positional form
            law = UniverseLaws(*[kwargs[a] for a in ATTRS])
        else:
            law = UniverseLaws(**kwargs)
    except Exception as exc:        # noqa: BLE001 - a law set that cannot be built reads back nothing of what was passed
        return {"given": list(given), "read": [-1] * 5, "sets": [], "reread": [-1] * 5, "variant": variant,
                "constructor_raised": type(exc).__name__}
    read = [to_id(getattr(law, a), m) for a in ATTRS]
    sets = []
    for ix, a in enumerate(ATTRS, start=1):
        for v in (2, 3, 1, 5):
            try:
                setattr(law, a, m[v])
                raised = False
            except Exception:
                raised = True
            sets.append({"attr": ix, "val": v, "raised": raised, "after": to_id(getattr(law, a), m)})
    u1, u2 = Universe(), Universe(laws=law)
    u1.laws = law
    law.applies_to = None
    # "cannot be changed afterwards": neither through the mapping that was passed in nor through one that was read out
    for mapping in (kwargs.get("edge_whitelist"), law.edge_whitelist):
        if isinstance(mapping, dict) or hasattr(mapping, "__setitem__"):
            try:
                for inner in list(mapping.values()):
                    inner["extra"] = u1
                mapping["extra"] = {}
            except Exception:       # noqa: BLE001 - an immutable mapping is fine
                pass
    reread = [to_id(getattr(law, a), m) for a in ATTRS]
    return {"given": list(given), "read": read, "sets": sets, "reread": reread, "variant": variant}


def cases(tier):
    wl = [0, 1, 4, 5, 6]
    bools = [0, 2, 3]
    out = []
    for w in wl:
        for b in itertools.product(bools, repeat=4):
            out.append([w, *b])
    if tier == "quick":
        out = [c for i, c in enumerate(out) if i % 3 == 0 or c.count(0) in (0, 5)]
    return out


def judge(records, wd):
    path = os.path.join(wd, "lawattr-recs.json")
    with open(path, "w") as f:
        json.dump(records, f)
    r = tlc.run_tlc("EGLaws", tlc.make_cfg({}, invariants=["Judged"]).replace("CONSTANTS\n", ""), wd,
                    workers=1, tag="judge-lawattrs", env={"EG_RECORDS": path}, heap="2g")
    if r["distinct"] != len(records):
        raise Machinery(f"law-attribute judge examined {r['distinct']} of {len(records)} records")
    return r["json"]


def check(run, wd, tier):
    records = []
    for i, g in enumerate(cases(tier)):
        rec = observe(g, variant=i % 3)
        rec["id"] = i + 1
        records.append(rec)
    verdicts = judge(records, wd)
    by = {r["id"]: r for r in records}
    for v in verdicts:
        r = by[v["id"]]
        run.violation("lawattr|" + "+".join(sorted(v["fail"])),
                      f"UniverseLaws rule attributes given={r['given']} violate {'+'.join(sorted(v['fail']))}",
                      {"kind": "lawattrs", "given": r["given"], "observed": r, "fail": v["fail"], "expected": v.get("exp")})
    for r in records:
        run.count_class(f"lawattr:omitted{r['given'].count(0)},wl{r['given'][0]}")
    run.traces += len(records)
    run.evaluations += len(records)
    run.sample({"lawattrs": records[len(records) // 2]})


def replay(path, wd):
    with open(path) as f:
        rp = json.load(f)
    rec = observe(rp["given"], rp.get("observed", {}).get("variant", 0))
    rec["id"] = 1
    verdicts = judge([rec], wd)
    print(json.dumps(rec))
    if verdicts:
        print(f"VIOLATION property=C19 replay={path}  # reproduced: {verdicts[0]['fail']}")
        return 1
    print("replay: law-set rule attributes behave as specified on the current tree")
    return 0
