"""C11 (adjacency builders) and C20 (randgraph) -- spec/EGBuilders.tla."""
from __future__ import annotations

import json
import time

from . import tlc, explore, structural as ST, world as W
from .common import Run, Machinery

ASSUME = [
    "link creation order is observed through harness-defined subclasses of the edge classes passed as linktype (their "
    "constructor numbers instances); everything else through public accessors",
    "truthy / falsy matrix cells are drawn from fixed menus {1, True, 'x', [0], 2.5, -1} / {0, None, '', [], 0.0, False}",
    "reading back with neighbors()/find_links is established by composition: TLC proves the read-back lemmas on the "
    "specified result for every (pre-state, input) of the bounded model, C11 binds the real result to the specified one, "
    "C04/C09 bind the real queries to the operators used in the lemmas",
]

BB = dict(ST.BASE, NV=3, NU=2, NL=9, NLaw=2, Kinds={"D"}, MaxArg=1, Fams={"link", "uni"}, InitBV=3, InitBU=1,
          OnlyOps={"new"}, BKinds={"D", "U"}, MaxKeys=2, MaxVals=2, MaxSide=2, MaxRows=2, MaxRowLen=2, PreDepth=1)


def bcfg(name, **kw):
    c = dict(BB)
    c.update(kw)
    return name, c


def gen(name, consts, wd, lemmas=True, workers=1, emit=True, timeout=3000):
    c = dict(consts)
    c["DoEmit"] = emit
    inv = ["InvStruct"] + (["InvReadBackDict", "InvReadBackMatrix"] if lemmas else [])
    text = tlc.make_cfg(c, init="BInit", next_="BNext", view="BView", constraint="Bound", invariants=inv,
                        properties=["BadInputAtomic"] if lemmas else [], action_constraint="BEmit")
    index = explore.TransIndex() if emit else None
    res = tlc.run_tlc("MC_Builders", text, wd, workers=workers, tag=f"bgen-{name}", timeout=timeout,
                      on_json=index.add if emit else None, keep_stdout=False)
    res["index"] = index
    return res


def run_config(run, name, consts, wd):
    t0 = time.time()
    lem = gen(name + "-lemmas", consts, wd, lemmas=True, workers=16, emit=False)
    run.add_model(f"lemmas:{name}", lem, {k: (sorted(v) if isinstance(v, set) else v) for k, v in consts.items()})
    g = gen(name, consts, wd, lemmas=False, workers=1, emit=True)
    run.add_model(name, g, None)
    index = g.pop("index")
    t1 = time.time()
    init = ST.base_state(consts)
    agg = {"bad": 0, "n": 0, "judge_s": 0.0, "chunks": 0, "sampled": False}
    cref = {}

    def sink(records):
        brecs = [r for r in records if r["c"]["op"] in ("loaddict", "loadmat")]
        tj = time.time()
        agg["chunks"] += 1
        verdicts = ST.judge("C11", consts, brecs, wd, f"{name}-{agg['chunks']}", module="JudgeBuild")
        agg["judge_s"] += time.time() - tj
        by_id = {r["id"]: r for r in brecs}
        for v in verdicts:
            r = by_id[v["id"]]
            agg["bad"] += 1
            run.violation(f"{r['cls']}|{'+'.join(sorted(v['fail']))}",
                          f"{r['c']['op']} a={r['c']['a']} b={r['c']['b']} deviates from the specified result",
                          {"kind": "builder", "config": name, "consts": {k: (sorted(x) if isinstance(x, set) else x) for k, x in consts.items()},
                           "path": cref["c"].get(W.key(r["pre"])), "call": r["c"],
                           "observed": {"pre": r["pre"], "res": r["res"], "post": r["post"]}, "expected": v.get("exp")})
        for r in brecs:
            run.count_class(r["cls"])
        agg["n"] += len(brecs)
        run.traces += len(brecs)
        run.evaluations += len(brecs)
        if not agg["sampled"] and brecs:
            agg["sampled"] = True
            r = brecs[len(brecs) // 3]
            run.sample({"config": name, "pre": r["pre"], "call": r["c"],
                        "decoded": (W.decode_adj(r["c"]["a"]) if r["c"]["op"] == "loaddict" else {"side": r["c"]["a"], "rows": W.decode_rows(r["c"]["b"])}),
                        "res": r["res"], "post": r["post"]})

    _, confirmed, st = explore.explore(consts, init, index, index, sink=sink, confirmed_out=cref)
    t2 = time.time()
    st.update({"builder_records": agg["n"], "failing": agg["bad"], "t_generate_s": round(t1 - t0, 1),
               "t_execute_and_judge_s": round(t2 - t1, 1), "t_judge_s": round(agg["judge_s"], 1)})
    run.extra.setdefault("executions", []).append({"config": name, **st})


def replay_builder(path, wd):
    with open(path) as f:
        rp = json.load(f)
    consts = {k: (set(v) if isinstance(v, list) else v) for k, v in rp["consts"].items()}
    w, _ = explore.replay_path(consts, ST.base_state(consts), rp["path"] or [])
    pre = w.project()
    res = w.apply(rp["call"])
    post = w.project()
    rec = {"id": 1, "pre": pre, "c": rp["call"], "res": res, "post": post}
    verdicts = ST.judge("C11", consts, [rec], wd, "replay", shards=1, module="JudgeBuild")
    print(json.dumps(rec, indent=1)[:3000])
    if verdicts:
        print(f"VIOLATION property=C11 replay={path}  # reproduced: {verdicts[0]['fail']}")
        return 1
    print(f"replay of {path}: property C11 holds on the current tree")
    return 0


def c11(tier, seed, wd, replay=None):
    if replay:
        return replay_builder(replay, wd)
    run = Run("C11", tier, seed)
    run.rule = ("TLC enumerates, from pre-states with prior links and universe memberships, load_adj_dict with every "
                "adjacency dict over the pool (key order, empty rows, self and repeated entries) and load_adj_matrix with every "
                "side array (duplicates included) and every 0/1 matrix incl. every ragged / wrong-size shape, for two link "
                "types; proves the read-back lemmas for each; every call is executed on real objects and the complete real "
                "state (universe order, each new link's kind / ends / creation order, prior structure) must equal the specified "
                "result, bad shapes must raise ValueError and change nothing; class = builder x input shape; non-trivial = input non-empty")
    if tier == "quick":
        cfgs = [bcfg("build-3v-pre1")]
    else:
        cfgs = [bcfg("build-3v-pre2", PreDepth=2, BKinds={"D", "U", "T"}, OnlyOps={"new", "oadd"}, MaxRowLen=3),
                bcfg("build-3v-keys3", PreDepth=0, MaxKeys=3, MaxVals=1, MaxSide=1, MaxRows=1, MaxRowLen=1, NL=12),
                bcfg("build-3v-mat3", PreDepth=0, MaxKeys=0, MaxVals=0, MaxSide=3, MaxRows=3, MaxRowLen=3, NL=12, BKinds={"D"})]
    for name, consts in cfgs:
        run_config(run, name, consts, wd)
    run.exhaustive = True
    run.assumptions = ASSUME
    mandatory = [lambda c: c.startswith("loaddict") and "self" in c, lambda c: c.startswith("loaddict") and "repeat" in c,
                 lambda c: c.startswith("loaddict") and "prior" in c, lambda c: c.startswith("loadmat") and "badshape" in c,
                 lambda c: c.startswith("loadmat") and "diag" in c, lambda c: c.startswith("loadmat") and "dupside" in c]
    return run.finish(nontrivial_filter=lambda c: "keys0" not in c and ":n0," not in c, mandatory=mandatory)



RCONSTS = {"NV": 6, "NU": 1, "NL": 36, "NLaw": 1}


def rand_model(run, wd, tier):
    """E1: every draw sequence of randint, for counts 1..MaxCount x connectivity grid + default x ensurelink."""
    mc = 5 if tier == "quick" else 6
    base = dict(RCONSTS, MaxCount=mc, SmallCount=3, DoEmit=True)
    text = tlc.make_cfg(dict(base, Formula="clamped"), init="RInit", next_="RNext",
                        invariants=["InvSampleFits", "InvRandGraphPost"], action_constraint="REmit")
    res = tlc.run_tlc("MC_Rand", text, wd, workers=1, tag="rand-model", timeout=1800)
    run.add_model("randgraph-all-draws", res, {"MaxCount": mc, "Formula": "clamped"})
    neg = tlc.run_tlc("MC_Rand", tlc.make_cfg(dict(base, Formula="today", DoEmit=False), init="RInit", next_="RNext",
                                               invariants=["InvSampleFits"], action_constraint="REmit"),
                      wd, workers=4, tag="rand-negctl", allow_violation=True, timeout=600)
    if not neg["violated"]:
        raise Machinery("negative control: the unrepaired sample-size formula was not refuted by TLC")
    run.extra["negative_control"] = "MC_Rand with Formula=\"today\" violates InvSampleFits (count=1, default connectivity) as required"
    return res["json"]


JCONSTS = {"NV": 12, "NU": 1, "NL": 144, "NLaw": 1}      # judging pool (the model pool RCONSTS stays small)


def judge_rand(records, wd, name):
    return ST.judge("C20", JCONSTS, records, wd, name, module="JudgeBuild",
                    fields=("id", "count", "k", "ensure", "err", "adj", "post"))


def c20(tier, seed, wd, replay=None):
    from . import randgraph_exec as RX
    if replay:
        with open(replay) as f:
            rp = json.load(f)
        rec = RX.run_randgraph(rp["count"], rp["k"], rp["conn"], rp["ensure"], script=rp.get("script"), seed=rp.get("seed"))
        rec["id"] = 1
        v = judge_rand([rec], wd, "replay")
        print(json.dumps({k: rec[k] for k in ("count", "k", "ensure", "err", "randint", "adj")}))
        if v:
            print(f"VIOLATION property=C20 replay={replay}  # reproduced: {v[0]['fail']}")
            return 1
        print(f"replay of {replay}: property C20 holds on the current tree")
        return 0
    run = Run("C20", tier, seed)
    run.rule = ("TLC treats the random module as non-determinism: for counts 1..5 (6 thorough) x connectivity in {0, 1/4, 1/2, 3/4, 1, "
                "default 5/count} x ensurelink it visits EVERY sequence of randint outcomes, checks that the sample size always fits "
                "the population and (counts <= 3) the post-condition over every sample; each draw sequence is then played into the real "
                "randgraph through a scripted random.randint (random.sample real, seeded) for two edge types, and the real generator is "
                "run for a sweep of seeds, twice each; TLC judges: no raise, RandGraphPost on the real universe, result = load_adj_dict "
                "of the samples actually drawn, same seed => same result; class = (count, connectivity, ensurelink, mode); non-trivial = count >= 2")
    scripts = rand_model(run, wd, tier)
    records, meta = [], {}
    for sc in scripts:
        r = sc["run"]
        conn = None if r["dflt"] else (r["p"], r["q"])
        for kind in ("D", "U2"):
            rec = RX.run_randgraph(r["count"], kind, conn, r["ensure"], script=sc["rs"], seed=seed)
            rec["id"] = len(records) + 1
            meta[rec["id"]] = {"count": r["count"], "k": kind, "conn": conn, "ensure": r["ensure"], "script": sc["rs"], "seed": seed}
            records.append(rec)
            run.count_class(f"scripted:count{r['count']},conn{'default' if conn is None else f'{conn[0]}/{conn[1]}'},ensure{int(r['ensure'])}")
    unscripted = sum(1 for r in records if not r["scripted_ok"])
    nseeds = 40 if tier == "quick" else 400
    repro_bad = []
    for s in range(nseeds):
        count = 1 + (s % 12)
        conn = [None, (1, 1), (1, 2), (0, 1), (3, 4)][s % 5]
        ensure = bool(s % 2)
        kind = ("D", "U", "T", "D2")[s % 4]
        a = RX.run_randgraph(count, kind, conn, ensure, seed=seed * 1000 + s)
        b = RX.run_randgraph(count, kind, conn, ensure, seed=seed * 1000 + s)
        a["id"] = len(records) + 1
        meta[a["id"]] = {"count": count, "k": kind, "conn": conn, "ensure": ensure, "seed": seed * 1000 + s}
        records.append(a)
        if (a["post"], a["err"], a["adj"]) != (b["post"], b["err"], b["adj"]):
            repro_bad.append(a["id"])
        run.count_class(f"seeded:count{count},conn{'default' if conn is None else f'{conn[0]}/{conn[1]}'},ensure{int(ensure)}")
    verdicts = judge_rand(records, wd, "rand")
    for v in verdicts:
        m = meta[v["id"]]
        run.violation(f"randgraph:count{m['count']},conn{'default' if m['conn'] is None else m['conn']},ensure{int(m['ensure'])}|{'+'.join(sorted(v['fail']))}",
                      f"randgraph(count={m['count']}, connectivity={m['conn']}, ensurelink={m['ensure']}) violates {'+'.join(sorted(v['fail']))}",
                      dict(m, kind="randgraph", fail=v["fail"]))
    for rid in repro_bad:
        m = meta[rid]
        run.violation(f"randgraph:count{m['count']}|NotReproducible", "same seed gave two different results", dict(m, kind="randgraph"))
    run.traces += len(records)
    run.evaluations += len(records)
    run.extra["scripted_runs"] = len(scripts) * 2
    run.extra["scripted_runs_where_script_was_not_consumed"] = unscripted
    run.extra["seeded_runs"] = nseeds
    if unscripted:
        run.notes.append(f"{unscripted} scripted runs did not consume the script as generated (randint no longer called as modelled): those runs fell back to the real generator")
    run.sample({k: records[len(records) // 2][k] for k in ("count", "k", "ensure", "err", "randint", "adj")})
    run.exhaustive = True
    run.assumptions = ["random.randint / random.sample are observed by temporarily replacing the module attributes in the harness "
                       "process (no source change); connectivity is passed as the float p/q",
                       "vertices are identified by their attribute i; links by creation order of harness-side counting subclasses"]
    return run.finish(nontrivial_filter=lambda c: "count1," not in c,
                      mandatory=[lambda c: "count1,conndefault" in c, lambda c: c.startswith("seeded:"), lambda c: "conn0/1,ensure1" in c])


CHECKS = {"C11": c11, "C20": c20}
