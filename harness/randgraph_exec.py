"""C20 executor: run the real randgraph with the random module observed (and optionally scripted)."""
from __future__ import annotations

import random

from . import world as W

NVMAX, NLMAX = 12, 144      # judging pool: counts up to 12


def run_randgraph(count, kind, conn, ensure, script=None, seed=None):
    """conn: (p, q) or None for the default.  script: list of randint outcomes to play, or None (real RNG)."""
    from edgegraph.builder import randgraph as RG
    log = {"randint": [], "sample": []}
    orig_randint, orig_sample = random.randint, random.sample
    script = list(script) if script is not None else None
    state = {"scripted_ok": True}

    def my_randint(a, b):
        if script is not None:
            if script and a <= script[0] <= b:
                r = script.pop(0)
            else:
                state["scripted_ok"] = False
                r = orig_randint(a, b)
        else:
            r = orig_randint(a, b)
        log["randint"].append(r)
        return r

    def my_sample(pop, k, *a, **kw):
        s = orig_sample(pop, k, *a, **kw)
        log["sample"].append(list(s))
        return s

    if seed is not None:
        random.seed(seed)
    random.randint, random.sample = my_randint, my_sample
    err, uni = "", None
    try:
        kwargs = {"count": count, "edge": W.COUNTING[kind], "ensurelink": ensure}
        if conn is not None:
            kwargs["connectivity"] = conn[0] / conn[1]
        uni = RG.randgraph(**kwargs)
    except Exception as exc:
        err = type(exc).__name__
    finally:
        random.randint, random.sample = orig_randint, orig_sample
    rec = {"count": count, "k": kind, "ensure": bool(ensure), "err": err, "randint": log["randint"],
           "scripted_ok": state["scripted_ok"], "adj": [], "post": empty_state()}
    if uni is not None:
        rec["post"], num = project(uni)
        adj = []
        for i, smp in enumerate(log["sample"]):
            adj += [i + 1, len(smp)] + [num(v) for v in smp]
        rec["adj"] = adj
    return rec


def empty_state():
    return {"nl": 0, "kind": [""] * NLMAX, "ends": [[] for _ in range(NLMAX)], "vl": [[] for _ in range(NVMAX + 1)],
            "unis": [[] for _ in range(NVMAX + 1)], "members": [[]], "laws": [0], "app": [0], "bv": 0, "bu": 0, "bl": [False]}


def project(uni):
    """vertices are named by their attribute i (+1); links by creation order; shapes as World.project"""
    verts = list(uni.vertices)
    ids = {}
    for v in verts:
        i = getattr(v, "i", None)
        if isinstance(i, int) and not isinstance(i, bool) and 0 <= i < NVMAX and (i + 1) not in ids.values():
            ids[id(v)] = i + 1

    def num(x):
        if x is None:
            return 0
        if x is uni:
            return NVMAX + 1
        return ids.get(id(x), -1)

    links = {}
    for v in verts:
        for lk in v.links:
            links[id(lk)] = lk
    ordered = sorted(links.values(), key=lambda x: getattr(x, "_verif_seq", 1 << 60))
    lnum = {id(lk): j + 1 for j, lk in enumerate(ordered)}
    S = empty_state()
    S["nl"] = min(len(ordered), NLMAX)
    for j, lk in enumerate(ordered[:NLMAX]):
        S["kind"][j] = W.KIND_OF.get(type(lk), "?")
        S["ends"][j] = [num(x) for x in lk.vertices]
    for v in verts:
        n = num(v)
        if 1 <= n <= NVMAX:
            S["vl"][n - 1] = [lnum.get(id(lk), -1) for lk in v.links]
            S["unis"][n - 1] = [num(u) for u in v.universes]
    S["members"] = [[num(v) for v in verts]]
    S["laws"] = [1 if uni.laws is not None and uni.laws.applies_to is uni else 0]
    S["app"] = [NVMAX + 1 if S["laws"][0] else 0]
    S["bl"] = [bool(S["laws"][0])]
    S["bv"] = len(ids)
    S["bu"] = 1
    return S, num
