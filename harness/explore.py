"""E2 driver: model-guided exploration of the real implementation.

TLC (E1) emitted every transition (s, call, t) of the bounded model.  This driver walks the REAL
implementation breadth first: a model state is *confirmed* once some executed call sequence on
fresh real objects projects exactly onto it; from every confirmed state every call the model
offers there is executed on fresh objects (replaying the confirming path first) and the
observation {pre, c, res, post} is recorded for the judge (E3).  The driver holds no expectations:
it only uses the model's state set to decide where to continue.
"""
from __future__ import annotations

import json
import multiprocessing as mp
from .common import worker_pool
import os

from . import world as W

_G = {}


def _init_worker(consts, init, caching, vertex_cls_name, cache_mode=None, impl=None):
    _G["cache_mode"] = cache_mode
    _G["impl"] = impl
    from edgegraph.structure import Vertex
    from . import probes as P
    from . import render_exec  # noqa: F401  (registers the mixed vertex-class pool)
    Vertex.NEIGHBOR_CACHING = caching
    _G["consts"], _G["init"] = consts, init
    _G["vcls"] = P.VERTEX_CLASSES[vertex_cls_name or "Vertex"]


def _run_task(task):
    path, calls, probe_spec = task
    if probe_spec is not None:
        from . import probes as P
        w = W.World(_G["consts"], _G["init"], _G["vcls"])
        for pc in path:
            w.apply(pc)
        S = w.project()
        if probe_spec.get("engine") == "render":
            from . import render_exec as RX
            pr = RX.run(w, S, probe_spec)
        elif probe_spec.get("engine") == "readonly":
            from . import readonly_exec as RO
            pr = RO.run(w, S, probe_spec)
        else:
            pr = P.run(w, S, probe_spec)
        after = w.project()
        return ("probe", S, pr, after)
    out = []
    cm = _G.get("cache_mode")
    for c in calls:
        if cm is not None:
            out.append(_run_cached(path, c, cm))
            continue
        w = W.World(_G["consts"], _G["init"], _G["vcls"])
        for pc in path:
            w.apply(pc)
        pre = w.project()
        if _G.get("impl") and c["op"] in _G["impl"]:
            from . import impl_trace
            res, entered = impl_trace.apply_traced(w, c)
            post = w.project()
            out.append((pre, c, res, post, entered))
            continue
        res = w.apply(c)
        post = w.project()
        out.append((pre, c, res, post))
    return out


def _run_cached(path, c, cm):
    """C05 binding: keep every memo as warm as possible, mutate, then ask everything again (flag on)."""
    from edgegraph.structure import Vertex
    from . import probes as P
    spec, variant = cm["spec"], cm["variant"]
    if variant == "sampled":        # the cheaper variants are applied to a deterministic sample
        variant = ("offmut", "buildoff", "on", "off2")[P.h(path, c) % 4]
    if variant == "off2" and not path:
        variant = "offmut"
    Vertex.NEIGHBOR_CACHING = variant != "buildoff"
    w = W.World(_G["consts"], _G["init"], _G["vcls"])
    # "off2": the flag is off during the LAST TWO calls (an end taken off a link and another put on: in between the
    # staying end cannot even be asked), everything before is warm
    head = path[:-1] if variant == "off2" else path
    for pc in head:
        w.apply(pc)
        if variant != "buildoff":
            P.run(w, w.project(), spec)              # warm after every step
    Vertex.NEIGHBOR_CACHING = True
    P.run(w, w.project(), spec)                      # warm in the state the call(s) are made in
    if variant == "off2":
        Vertex.NEIGHBOR_CACHING = False
        w.apply(path[-1])
    pre = w.project()
    if variant == "offmut":
        Vertex.NEIGHBOR_CACHING = False
    res = w.apply(c)
    Vertex.NEIGHBOR_CACHING = True
    post = w.project()
    probes = P.run(w, post, spec)                    # answers with the flag on (hits where entries survived)
    return (pre, c, res, post, probes, variant)


class TransIndex:
    """incremental index of the transitions TLC emitted: the model's state set and, per state, the calls it offers
    (kept as compact JSON strings; nothing else of the transition is retained)"""

    def __init__(self):
        self.states = set()
        self._calls = {}
        self.n = 0

    def add(self, r):
        self.n += 1
        ks = W.key(r["s"])
        self.states.add(ks)
        self.states.add(W.key(r["t"]))
        self._calls.setdefault(ks, set()).add(W.key(r["c"]))

    def get(self, ks, default=()):
        c = self._calls.get(ks)
        return [json.loads(x) for x in sorted(c)] if c else list(default)

    def __contains__(self, ks):
        return ks in self.states

    def __len__(self):
        return len(self.states)


def parse_transitions(lines):
    """lines: decoded Emit records {c, s, t}.  Returns (index, index): the index serves as calls_at and as state set."""
    ix = TransIndex()
    for r in lines:
        ix.add(r)
    return ix, ix


def _bounded_imap(pool, tasks, batch=600):
    """like zip(tasks, pool.imap(..)) but with at most `batch` tasks in flight: while the consumer is busy (judging a
    chunk with TLC) the workers must not pile results up in memory"""
    for i in range(0, len(tasks), batch):
        part = tasks[i:i + batch]
        for t, outs in zip(part, pool.imap(_run_task, part, chunksize=4)):
            yield t, outs


def explore(consts, init_state, calls_at, model_states, *, caching=False, procs=16, max_records=None,
            probe=None, vertex_cls=None, keep_records=True, probe_filter=None, cache_mode=None,
            sink=None, probe_sink=None, chunk=30000, confirmed_out=None, probe_chunk=(2500, 120000), impl=None):
    """probe: a picklable spec for harness.probes.run, evaluated once in every confirmed state
    (optionally only where probe_filter(state_key) is true).
    sink / probe_sink: when given, records / probed entries are handed over in chunks and not kept."""
    ctx = mp.get_context("fork")
    confirmed = {W.key(init_state): []}
    if confirmed_out is not None:
        confirmed_out["c"] = confirmed        # shared with the sinks (replay paths of pre-states)
    frontier = [W.key(init_state)]
    records = []
    probed = []
    nrec = nprobed = nprobes = pending_probes = 0
    offmodel = 0
    level = 0
    with worker_pool(ctx, procs, initializer=_init_worker, initargs=(consts, init_state, caching, vertex_cls, cache_mode, impl)) as pool:
        while frontier:
            tasks = []
            for ks in frontier:
                calls = calls_at.get(ks, [])
                if probe is not None and (probe_filter is None or probe_filter(ks)):
                    tasks.append((confirmed[ks], None, probe))
                if calls:
                    # split big call lists so that the pool stays busy
                    for i in range(0, len(calls), 8):
                        tasks.append((confirmed[ks], calls[i:i + 8], None))
            nxt = []
            for (path, _, _), outs in _bounded_imap(pool, tasks):
                if probe_sink is not None and (len(probed) >= probe_chunk[0] or pending_probes >= probe_chunk[1]):
                    probe_sink(probed)
                    probed = []
                    pending_probes = 0
                if outs and outs[0] == "probe":
                    _, S, pr, after = outs
                    nprobed += 1
                    nprobes += len(pr)
                    pending_probes += len(pr)
                    probed.append({"id": nprobed, "S": S, "probes": pr, "after": after, "path": path})
                    continue
                for tup in outs:
                    pre, c, res, post = tup[:4]
                    nrec += 1
                    rid = nrec
                    if cache_mode is not None:
                        nprobed += 1
                        nprobes += len(tup[4])
                        pending_probes += len(tup[4])
                        probed.append({"id": rid, "S": post, "probes": tup[4], "path": path, "call": c,
                                       "pre": pre, "variant": tup[5]})
                    if keep_records:
                        records.append({"id": rid, "pre": pre, "c": c, "res": res, "post": post,
                                        "cls": W.alias_class(pre, c), "plen": len(path)})
                        if cache_mode is None and len(tup) > 4:
                            records[-1]["entered"] = tup[4]
                    kp = W.key(post)
                    if kp in model_states:
                        if kp not in confirmed:
                            confirmed[kp] = path + [c]
                            nxt.append(kp)
                    else:
                        offmodel += 1
                if sink is not None and len(records) >= chunk:
                    sink(records)
                    records = []

            frontier = nxt
            level += 1
            if max_records and nrec >= max_records:
                break
    if sink is not None and records:
        sink(records)
        records = []
    if probe_sink is not None and probed:
        probe_sink(probed)
        probed = []
    stats = {"model_states": len(model_states), "confirmed_states": len(confirmed),
             "unconfirmed_states": len(model_states) - len(confirmed), "offmodel_posts": offmodel,
             "levels": level, "records": nrec, "probed_states": nprobed, "probes": nprobes}
    if probe is not None or cache_mode is not None:
        return records, confirmed, stats, probed
    return records, confirmed, stats


def replay_path(consts, init_state, path, caching=False):
    from edgegraph.structure import Vertex
    Vertex.NEIGHBOR_CACHING = caching
    w = W.World(consts, init_state)
    trace = []
    for c in path:
        pre = w.project()
        res = w.apply(c)
        trace.append({"pre": pre, "c": c, "res": res, "post": w.project()})
    return w, trace
