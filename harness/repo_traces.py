"""Binding through the repository's own tests: run the suite under harness/recorder.py and let the TLA+ judge
examine every recorded structural call (code -> specification, on executions the project itself wrote)."""
from __future__ import annotations

import json
import os
import subprocess
import sys

from . import structural as ST, recorder
from .common import Machinery


def record(wd, select=None, stop_at_first_failure=True):
    repo = os.environ.get("VERIF_REPO", "/repo")
    root = os.environ.get("VERIF_ROOT", "/verif")
    out = os.path.join(wd, "repo-traces.ndjson")
    env = dict(os.environ, PYTHONPATH=f"{root}:{repo}", EG_TRACE_OUT=out, PYTHONHASHSEED="0")
    cmd = [sys.executable, "-m", "pytest", "-q", "-p", "no:cacheprovider", "-p", "harness.recorder"] \
        + (["-x"] if stop_at_first_failure else []) + [select if select else "tests"]
    p = subprocess.run(cmd, cwd=repo, env=env, capture_output=True, text=True, timeout=1200)
    if not os.path.exists(out + ".stats"):
        raise Machinery(f"recording the repository's tests failed: {p.stdout[-400:]} {p.stderr[-400:]}")
    with open(out + ".stats") as f:
        stats = json.load(f)
    stats["pytest_exit"] = p.returncode
    stats["pytest_summary"] = next((l for l in p.stdout.splitlines()[::-1] if " passed" in l or " failed" in l), "")
    traces = []
    with open(out) as f:
        for line in f:
            traces.append(json.loads(line))
    os.remove(out)
    return traces, stats


def check(run, prop, wd, select=None, label="repository_tests_as_traces", sig="repo-test"):
    traces, stats = record(wd, select, stop_at_first_failure=(sig == "repo-test"))
    consts = dict(recorder.POOL)
    recs, owner = [], {}
    for t in traces:
        for j, r in enumerate(t["records"]):
            r = dict(r, id=len(recs) + 1)
            owner[r["id"]] = (t["test"], j)
            recs.append(r)
    verdicts = ST.judge(prop, consts, recs, wd, "repo-tests")
    skipped = 0
    for v in verdicts:
        if "skip" in v:
            skipped += 1
            continue
        test, j = owner[v["id"]]
        r = recs[v["id"] - 1]
        run.violation(f"{sig}:{r['c']['op']}|{'+'.join(sorted(v['fail']))}",
                      f"in {test}, call #{j + 1} {r['c']['op']}{r['c']['a']} violates {'+'.join(sorted(v['fail']))}",
                      {"kind": sig, "test": test, "call_index": j, "call": r["c"],
                       "observed": {"pre": r["pre"], "res": r["res"], "post": r["post"]}, "expected": v.get("exp")})
    for r in recs:
        run.count_class(f"{sig}:{r['c']['op']}")
    run.traces += len(traces)
    run.evaluations += len(recs)
    stats.update({"traces_judged": len(traces), "calls_judged": len(recs), "skipped_by_judge": skipped})
    run.extra[label] = stats
    if traces:
        t = traces[len(traces) // 2]
        run.sample({"repository_test": t["test"], "calls": [r["c"] for r in t["records"]][:10]})
    return stats


def check_idioms(run, prop, wd):
    """usage idioms written for this purpose (/verif/idioms: scripts without assertions) recorded and judged the same way"""
    root = os.environ.get("VERIF_ROOT", "/verif")
    stats = check(run, prop, wd, select=os.path.join(root, "idioms"), label="usage_idioms_as_traces", sig="idiom")
    if stats.get("kept", 0) < stats.get("tests", 0) or not stats.get("tests"):
        raise Machinery(f"usage idioms: {stats.get('kept')} of {stats.get('tests')} scenarios could be recorded ({stats.get('reasons')})")
    return stats
