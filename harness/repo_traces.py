"""Binding through the repository's own tests: run the suite under harness/recorder.py and let the TLA+ judge
examine every recorded structural call (code -> specification, on executions the project itself wrote)."""
from __future__ import annotations

import json
import os
import subprocess
import sys

from . import structural as ST, recorder
from .common import Machinery


def record(wd, select=None):
    repo = os.environ.get("VERIF_REPO", "/repo")
    root = os.environ.get("VERIF_ROOT", "/verif")
    out = os.path.join(wd, "repo-traces.ndjson")
    env = dict(os.environ, PYTHONPATH=f"{root}:{repo}", EG_TRACE_OUT=out, PYTHONHASHSEED="0")
    cmd = [sys.executable, "-m", "pytest", "-q", "-p", "no:cacheprovider", "-p", "harness.recorder", "-x",
           select if select else "tests"]
    p = subprocess.run(cmd, cwd=repo, env=env, capture_output=True, text=True, timeout=1200)
    if not os.path.exists(out + ".stats"):
        raise Machinery(f"recording the repository's tests failed: {p.stdout[-400:]} {p.stderr[-400:]}")
    with open(out + ".stats") as f:
        stats = json.load(f)
    stats["pytest_exit"] = p.returncode
    stats["pytest_summary"] = next((l for l in p.stdout.splitlines()[::-1] if " passed" in l or " failed" in l), "")
    traces = []
    with open(out) as f:
        for line in f:
            traces.append(json.loads(line))
    os.remove(out)
    return traces, stats


def check(run, prop, wd, select=None):
    traces, stats = record(wd, select)
    consts = dict(recorder.POOL)
    recs, owner = [], {}
    for t in traces:
        for j, r in enumerate(t["records"]):
            r = dict(r, id=len(recs) + 1)
            owner[r["id"]] = (t["test"], j)
            recs.append(r)
    verdicts = ST.judge(prop, consts, recs, wd, "repo-tests")
    skipped = 0
    for v in verdicts:
        if "skip" in v:
            skipped += 1
            continue
        test, j = owner[v["id"]]
        r = recs[v["id"] - 1]
        run.violation(f"repo-test:{r['c']['op']}|{'+'.join(sorted(v['fail']))}",
                      f"in {test}, call #{j + 1} {r['c']['op']}{r['c']['a']} violates {'+'.join(sorted(v['fail']))}",
                      {"kind": "repo-test", "test": test, "call_index": j, "call": r["c"],
                       "observed": {"pre": r["pre"], "res": r["res"], "post": r["post"]}, "expected": v.get("exp")})
    for r in recs:
        run.count_class(f"repo-test:{r['c']['op']}")
    run.traces += len(traces)
    run.evaluations += len(recs)
    stats.update({"traces_judged": len(traces), "calls_judged": len(recs), "skipped_by_judge": skipped})
    run.extra["repository_tests_as_traces"] = stats
    if traces:
        t = traces[len(traces) // 2]
        run.sample({"repository_test": t["test"], "calls": [r["c"] for r in t["records"]][:10]})
    return stats
