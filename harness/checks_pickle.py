"""C10 -- nrpickler round trip (spec/EGPickle.tla for the queue mechanism; EGStructure for isomorphism)."""
from __future__ import annotations

import json
import os
import time
from concurrent.futures import ThreadPoolExecutor

from . import tlc, explore, structural as ST, world as W, probes as P, pickle_exec as PX, checks_query as Q
from .common import Run, Machinery

ASSUME = [
    "the emission tree is recorded by a tracing subclass of dill.Pickler (the recursive reference) and the lazy pickler's real "
    "writes / memoisations by a tracing subclass of _NonrecursivePickler, both defined in the harness (no source change)",
    "the copy is identified with the original by position in the pickled pool (lists of vertices, links, law sets); attributes are "
    "compared by repr, sharing by identity pattern, uids modulo 10^9, classes by qualified name",
    "byte-level fidelity of arbitrary attribute values is dill's business: a fixed menu of attribute values is used",
]


def model(run, wd, tier):
    base = {"NObj": 3, "MaxPre": 2, "MaxPost": 2}
    inv = ["PrefixOK", "FinalOK", "MemoOnce", "GetAfterPut", "OpenedOnce"]
    res = tlc.run_tlc("EGPickle", tlc.make_cfg(dict(base, Splice="before"), init="PInit", next_="PNext", invariants=inv),
                      wd, workers=16, tag="pickle-model", timeout=3000)
    run.add_model("pickle-queue-all-graphs-3", res, dict(base, Splice="before"))
    if tier == "thorough":
        b4 = {"NObj": 4, "MaxPre": 1, "MaxPost": 2}
        res = tlc.run_tlc("EGPickle", tlc.make_cfg(dict(b4, Splice="before"), init="PInit", next_="PNext", invariants=inv),
                          wd, workers=16, tag="pickle-model4", timeout=7000, heap="12g")
        run.add_model("pickle-queue-all-graphs-4", res, dict(b4, Splice="before"))
    neg = tlc.run_tlc("EGPickle", tlc.make_cfg({"NObj": 3, "MaxPre": 0, "MaxPost": 2, "Splice": "after"}, init="PInit",
                                               next_="PNext", invariants=["PrefixOK"]),
                      wd, workers=4, tag="pickle-negctl", allow_violation=True, timeout=900)
    if not neg["violated"]:
        raise Machinery("negative control: splicing new queue entries after the unprocessed tail did not violate PrefixOK")
    run.extra["negative_control"] = "EGPickle with Splice=\"after\" violates PrefixOK as required"


def judge_trees(recs, wd, name, shards=8):
    if not recs:
        return []
    text = tlc.make_cfg({"NObj": 1, "MaxPre": 0, "MaxPost": 0, "Splice": "before"}, init="JInit", next_="JNext",
                        invariants=["Judged"])
    n = max(1, min(shards, len(recs) // 40 + 1))
    size = (len(recs) + n - 1) // n
    parts = [recs[i:i + size] for i in range(0, len(recs), size)]

    def one(ix):
        path = os.path.join(wd, f"trees-{name}-{ix}.json")
        with open(path, "w") as f:
            json.dump([{k: r[k] for k in ("id", "err", "tree", "lazy")} for r in parts[ix]], f)
        r = tlc.run_tlc("JudgePickle", text, wd, workers=1, tag=f"tjudge-{name}-{ix}", env={"EG_RECORDS": path},
                        heap="4g", timeout=3000, stack="512m")
        if r["distinct"] != len(parts[ix]):
            raise Machinery(f"pickle judge examined {r['distinct']} of {len(parts[ix])} records")
        os.remove(path)
        return r["json"]

    out = []
    with ThreadPoolExecutor(max_workers=n) as ex:
        for js in ex.map(one, range(len(parts))):
            out.extend(js)
    return out


def sample_states(name, consts, wd, run, keep):
    gen = ST.generate(name, consts, wd)
    run.add_model(name, gen, {k: (sorted(v) if isinstance(v, set) else v) for k, v in consts.items()})
    calls_at = states = gen.pop("index")
    _, confirmed, st = explore.explore(consts, ST.base_state(consts), calls_at, states, keep_records=False)
    keys = sorted(confirmed, key=lambda k: P.h(k))
    chosen = [k for k in keys if len(confirmed[k]) >= 1][:keep]
    return [(k, confirmed[k], calls_at.get(k, [])) for k in chosen]


def mutate_after_warm(w, calls):
    """make the first offered link call that really changes the end lists (deterministic choice)"""
    for c in calls:
        if c["op"] in ("setv", "ladd", "lunl", "vadd", "vrem", "unlink", "new", "link"):
            before = w.project()["ends"]
            w.apply(c)
            if w.project()["ends"] != before:
                return c
    return None


def build(consts, path, caching):
    from edgegraph.structure import Vertex
    Vertex.NEIGHBOR_CACHING = caching
    w = W.World(consts, ST.base_state(consts), P.VERTEX_CLASSES["mixed"])
    for c in path:
        w.apply(c)
    return w


def c10(tier, seed, wd, replay=None):
    if replay:
        return replay_file(replay, wd)
    run = Run("C10", tier, seed)
    run.rule = ("(a) TLC checks the deferred-save queue of EGPickle on EVERY object graph with 3 objects (<=2 acyclic pre-children, "
                "<=2 arbitrary post-children: sharing, cycles, self-references): the output is always a prefix of the recursive "
                "stream and equal at the end, memoisation in stream order; splicing new entries after the tail is refuted; (b) for "
                "sampled reachable graph states (decorated with attributes, shared objects, mixed vertex classes) x protocols the "
                "emission tree of the recursive reference pickler and the real effect order of the real lazy pickler are recorded "
                "and TLC checks that the effects are what the specified queue algorithm produces from the tree and equal the "
                "recursive stream; (c) round trips: pickle.loads / dill.loads, every protocol, same process and a fresh interpreter, "
                "caching on/off on either side: the copy's projection (structure, order, classes, uids, attributes, sharing) must "
                "equal the original's, and the history continues on the copy under the C03 judge; queries on the copy are judged "
                "against the operators; (d) chains / cycles / stars far deeper than a lowered recursion limit serialise and load; "
                "class = (stage, protocol, loader, process, caching); non-trivial = every record")
    model(run, wd, tier)
    nstates = 10 if tier == "quick" else 60
    cfgs = [ST.cfg("links-2x2", Kinds={"D", "U", "T"}), ST.cfg("unis-1v2u", NV=1, NU=2, NL=0, NLaw=2, Fams={"uni", "new"}, InitBV=1, InitBU=1, MaxArg=2),
            ST.cfg("mixed-2v1u1l", NV=2, NU=1, NL=1, NLaw=2, Kinds={"D", "U"}, Fams={"link", "expl", "uni", "laws"}, InitBV=2, InitBU=1, MaxArg=1)]
    protos = [0, 2, 4, 5] if tier == "quick" else [0, 1, 2, 3, 4, 5]
    tree_recs, iso_recs, cont_recs, fresh_jobs, copy_probes = [], [], [], [], []
    meta = {}
    for name, consts in cfgs:
        for si, (key, path, calls) in enumerate(sample_states(name, consts, wd, run, nstates)):
            for variant, caching in ((si, False), (si + 1, True)):
                w = build(consts, path, caching)
                PX.decorate(w, variant)
                if caching:
                    P.run(w, w.project(), {"kind": "C05", "full": False, "nofilter": True})       # warm memos get pickled too
                    # then change the graph WITHOUT asking again: whatever the invalidation leaves behind in the
                    # per-vertex memo is pickled along and must not confuse the copy
                    mutate_after_warm(w, calls)
                orig = PX.projection_with_decor(w)
                for proto in protos:
                    if (si + proto) % 2 == 0:
                        tr = PX.mechanism_record(PX.pool_of(w), proto)
                        if "skip" in tr:
                            run.extra["mechanism_binding_skipped"] = tr["skip"]
                            continue
                        tr["id"] = len(tree_recs) + 1
                        meta[("tree", tr["id"])] = {"config": name, "consts": consts, "path": path, "variant": variant, "caching": caching, "protocol": proto}
                        tree_recs.append(tr)
                        run.count_class(f"mechanism:proto{proto},cache{int(caching)}")
                    for loader in ("pickle", "dill"):
                        res, w2, _ = PX.roundtrip_same_process(w, proto, loader)
                        rid = len(iso_recs) + 1
                        post = PX.projection_with_decor(w2) if w2 is not None else orig
                        iso_recs.append({"id": rid, "pre": orig, "c": {"op": "roundtrip", "k": loader, "a": [proto], "b": []}, "res": res, "post": post,
                                         "consts": consts})
                        meta[("iso", rid)] = {"config": name, "consts": consts, "path": path, "variant": variant, "caching": caching,
                                              "protocol": proto, "loader": loader, "fresh": False}
                        run.count_class(f"roundtrip:same-process,proto{proto},{loader},cache{int(caching)}")
                        if w2 is not None and caching:
                            # queries on the copy, flag on: judged against the operators on the copy's own projection
                            S2 = w2.project()
                            copy_probes.append({"id": len(copy_probes) + 1, "S": S2, "consts": consts,
                                                "probes": P.run(w2, S2, {"kind": "C05", "full": False, "nofilter": True}),
                                                "meta": meta[("iso", rid)]})
                        if w2 is not None and (si + proto) % 3 == 0:
                            for c in calls[:: max(1, len(calls) // 6)][:6]:
                                w3 = PX.world_from_pool(__import__("pickle").loads(__import__("pickle").dumps(PX.pool_of(w2))))
                                pre = w3.project()
                                r = w3.apply(c)
                                if w3.extra_links:
                                    continue        # the call left the object pool the judge is sized for
                                cont_recs.append({"id": len(cont_recs) + 1, "pre": pre, "c": c, "res": r, "post": w3.project(), "consts": consts,
                                                  "meta": {k: x for k, x in meta[("iso", rid)].items() if k != "consts"}})
                if si < (2 if tier == "quick" else 10):
                    for loader, fc in (("pickle", True), ("dill", False)):
                        fresh_jobs.append((name, consts, path, variant, caching, protos[(si + variant) % len(protos)], loader, fc,
                                           calls[:: max(1, len(calls) // 4)][:4], orig))
    # (b) mechanism
    for v in judge_trees(tree_recs, wd, "mech"):
        m = meta[("tree", v["id"])]
        run.violation(f"mechanism:proto{m['protocol']}|{'+'.join(sorted(v['fail']))}", f"lazy pickler effects deviate from the queue specification ({v['fail']})",
                      dict(kind="pickle-mechanism", **{k: (sorted(x) if isinstance(x, set) else x) for k, x in m.items() if k != "consts"},
                           consts={k: (sorted(x) if isinstance(x, set) else x) for k, x in m["consts"].items()}))
    # (c) isomorphism, per config (pool sizes differ)
    for name, consts in cfgs:
        part = [r for r in iso_recs if r["consts"] is consts]
        for v in ST.judge("C10", consts, part, wd, f"iso-{name}"):
            m = meta[("iso", v["id"])]
            run.violation(f"roundtrip:same-process,{m['loader']},cache{int(m['caching'])}|{'+'.join(sorted(v['fail']))}",
                          f"round trip (protocol {m['protocol']}, {m['loader']}) violates {v['fail']}",
                          dict(kind="pickle-roundtrip", **{k: x for k, x in m.items() if k != "consts"},
                               consts={k: (sorted(x) if isinstance(x, set) else x) for k, x in consts.items()}))
        qpart = [r for r in copy_probes if r["consts"] is consts]
        for i, r in enumerate(qpart):
            r["id"] = i + 1
        for v in Q.judge("C05", consts, qpart, wd, f"copyq-{name}"):
            m = qpart[v["id"] - 1]["meta"]
            run.violation(f"roundtrip:same-process,{m['loader']},cache1|QueriesOnCopy",
                          f"cached queries on the un-pickled copy (protocol {m['protocol']}, {m['loader']}) deviate: {json.dumps(v)[:200]}",
                          dict(kind="pickle-roundtrip", **{k: x for k, x in m.items() if k != "consts"},
                               consts={k: (sorted(x) if isinstance(x, set) else x) for k, x in consts.items()}))
        run.count_class(f"queries-on-copy:{name}", len(qpart))
        cpart = [r for r in cont_recs if r["consts"] is consts]
        for i, r in enumerate(cpart):
            r["id"] = i + 1
        for v in ST.judge("C03", consts, cpart, wd, f"cont-{name}"):
            if "fail" in v:
                r = cpart[v["id"] - 1]
                run.violation(f"continue-on-copy:{r['c']['op']}|Follow", f"{r['c']['op']}{r['c']['a']} on the un-pickled copy deviates from the specification",
                              dict(kind="pickle-continue", call=r["c"], pre=r["pre"], post=r["post"], res=r["res"],
                                   consts={k: (sorted(x) if isinstance(x, set) else x) for k, x in consts.items()}, **r["meta"]))
        run.count_class(f"continue-on-copy:{name}", len(cpart))
    # fresh interpreter
    t0 = time.time()

    def fresh(job, query_first=True):
        name, consts, path, variant, caching, proto, loader, fc, calls, orig = job
        w = build(consts, path, caching)
        PX.decorate(w, variant)
        if caching:
            P.run(w, w.project(), {"kind": "C05", "full": False, "nofilter": True})
            mutate_after_warm(w, calls)
        orig2 = PX.projection_with_decor(w)
        out = PX.roundtrip_fresh(w, proto, loader, fc, calls, wd, f"{os.getpid()}-{abs(hash((name, str(path), variant, caching, proto, loader))) % 10**9}",
                                 query_first=query_first)
        out["orig"] = orig2
        return out

    outs = [fresh(j, query_first=bool(ji % 2)) for ji, j in enumerate(fresh_jobs)]        # sequential: the flag is process-global
    batches = {}
    for ji, (job, out) in enumerate(zip(fresh_jobs, outs)):
        name, consts, path, variant, caching, proto, loader, fc, calls, orig = job
        cls = f"roundtrip:fresh-interpreter,proto{proto},{loader},dumpcache{int(caching)},loadcache{int(fc)}"
        run.count_class(cls)
        rp = {"kind": "pickle-fresh", "config": name, "consts": {k: (sorted(x) if isinstance(x, set) else x) for k, x in consts.items()},
              "path": path, "variant": variant, "caching": caching, "protocol": proto, "loader": loader, "fresh_caching": fc, "calls": calls,
              "query_first": bool(ji % 2)}
        if out.get("err"):
            run.violation(f"{cls}|{out['err']}", f"un-pickling / using the copy in a fresh interpreter raised {out['err']}: {out.get('trace', '')[-200:]}", rp)
            continue
        bt = batches.setdefault(name, {"consts": consts, "iso": [], "cont": [], "q": [], "owner": {}})
        bt["iso"].append({"id": len(bt["iso"]) + 1, "pre": out["orig"], "c": {"op": "roundtrip", "k": loader, "a": [proto], "b": []},
                          "res": {"err": "", "out": []}, "post": out["post"], "job": ji})
        for r in out["records"]:
            bt["cont"].append(dict(r, id=len(bt["cont"]) + 1, job=ji))
        S0 = {k: v for k, v in out["post"].items() if k != "decor"}
        if out["probes_before"]:
            bt["q"].append({"id": len(bt["q"]) + 1, "S": S0, "probes": out["probes_before"], "job": ji})
        bt["q"].append({"id": len(bt["q"]) + 1, "S": out["state_after"], "probes": out["probes_after"], "job": ji})
        bt["owner"][ji] = (cls, rp)
    for name, bt in batches.items():
        badjobs = {}
        for v in ST.judge("C10", bt["consts"], bt["iso"], wd, f"fresh-iso-{name}", shards=1):
            badjobs.setdefault(bt["iso"][v["id"] - 1]["job"], []).append(v["fail"])
        for v in ST.judge("C03", bt["consts"], bt["cont"], wd, f"fresh-cont-{name}", shards=1):
            if "fail" in v:
                badjobs.setdefault(bt["cont"][v["id"] - 1]["job"], []).append(v["fail"])
        for v in Q.judge("C05", bt["consts"], bt["q"], wd, f"fresh-q-{name}", shards=1):
            badjobs.setdefault(bt["q"][v["id"] - 1]["job"], []).append(["QueryAnswers"])
        for ji, fails in badjobs.items():
            cls, rp = bt["owner"][ji]
            run.violation(f"{cls}|judged", f"copy loaded in a fresh interpreter deviates: {fails}", rp)
    # a function reachable from its own closure, entered through the function (dill's recursive-cell protocol)
    err = PX.recursive_closure_case()
    run.count_class("dump:recursive-function-closure")
    if err:
        run.violation("dump:recursive-function-closure|" + err,
                      "nrpickler.dumps raises " + err + " on a graph holding a function that is reachable from its own closure "
                      "(dill.dumps handles it)", {"kind": "pickle-recursive-closure"})
    err = PX.main_super_case(wd)
    run.count_class("dump:main-class-with-super")
    if err:
        run.violation("dump:main-class-with-super|" + err,
                      "nrpickler.dumps on an instance of a Vertex subclass defined in __main__ whose __init__ uses zero-argument "
                      "super(): " + err + " (dill.dumps handles it)", {"kind": "pickle-main-super"})
    run.extra["fresh_interpreter_runs"] = len(fresh_jobs)
    run.extra["t_fresh_s"] = round(time.time() - t0, 1)
    # (d) depth
    sizes = [(1500, 150, "chain"), (3000, 300, "cycle"), (2000, 200, "star")] if tier == "quick" else \
            [(1500, 150, "chain"), (20000, 300, "chain"), (50000, 500, "chain"), (20000, 200, "cycle"), (30000, 300, "star")]
    for n, lim, kind in sizes:
        err, ok = PX.deep_chain(n, lim, kind)
        run.count_class(f"depth:{kind},n{n},limit{lim}")
        if err or not ok:
            run.violation(f"depth:{kind}|{err or 'CopyDiffers'}", f"{kind} of {n} vertices under recursion limit {lim}: {err or 'copy differs'}",
                          {"kind": "pickle-depth", "n": n, "limit": lim, "shape": kind})
    # an ordinary dumps() right after one that raised half-way (state carried from the failed call must not leak)
    for proto in (2, 4, 5):
        failed, err, ok = PX.after_failure_case(proto)
        run.count_class(f"after-failed-dumps:proto{proto},first_failed{int(failed)}")
        if err or not ok:
            run.violation(f"after-failed-dumps|{err or 'CopyDiffers'}", f"dumps() of a 4-cycle right after a dumps() that raised (protocol {proto}): {err or 'copy differs'}",
                          {"kind": "pickle-after-failure", "protocol": proto})
    # attribute values of 64 KiB and more (pickle writes those past the pickler's write hook)
    for proto in (1, 3, 4, 5):
        loader = ("pickle", "dill")[proto % 2]
        err, ok = PX.large_value_case(proto, loader)
        run.count_class(f"large-values:proto{proto},{loader}")
        if err or not ok:
            run.violation(f"large-values|{err or 'CopyDiffers'}", f"round trip of a graph carrying 64 KiB+ str / bytes / bytearray attribute values (protocol {proto}, {loader}): {err or 'copy differs'}",
                          {"kind": "pickle-large", "protocol": proto, "loader": loader})
    # objects nobody looked at before the dump
    for proto in (0, 2, 4, 5):
        loader = ("pickle", "dill")[(proto // 2) % 2]
        err, ok = PX.untouched_case(proto, loader)
        run.count_class(f"untouched-objects:proto{proto},{loader}")
        if err or not ok:
            run.violation(f"untouched-objects|{err or 'CopyDiffers'}", f"round trip of links / law set / base object that were never read before the dump (protocol {proto}, {loader}): {err or 'uids differ'}",
                          {"kind": "pickle-untouched", "protocol": proto, "loader": loader})
    # user subclasses that keep data in __slots__
    for proto in (2, 3, 4, 5):
        loader = ("pickle", "dill")[proto % 2]
        err, ok = PX.slotted_case(proto, loader)
        run.count_class(f"slotted-subclasses:proto{proto},{loader}")
        if err or not ok:
            run.violation(f"slotted-subclasses|{err or 'CopyDiffers'}", f"round trip of Vertex / Universe subclasses with __slots__ (protocol {proto}, {loader}): {err or 'slot values lost'}",
                          {"kind": "pickle-slotted", "protocol": proto, "loader": loader})
    run.traces += len(tree_recs) + len(iso_recs) + len(cont_recs) + len(fresh_jobs)
    run.evaluations += len(tree_recs) + len(iso_recs) + len(cont_recs) + len(fresh_jobs) + len(sizes)
    good_trees = [t for t in tree_recs if t["tree"]]
    if good_trees:
        t = good_trees[0]
        run.sample({"mechanism": {"protocol": t["protocol"], "nodes": len(t["tree"]), "first_node_items": t["tree"][0][:8], "lazy_effects": t["lazy"][:8]}})
    if iso_recs:
        r = iso_recs[len(iso_recs) // 2]
        run.sample({"roundtrip": {"call": r["c"], "original": {k: r["pre"][k] for k in ("kind", "ends", "vl", "members")}, "decor": r["pre"]["decor"][:2]}})
    run.exhaustive = False
    run.assumptions = ASSUME
    mech = [] if run.extra.get("mechanism_binding_skipped") else [lambda c: c.startswith("mechanism:proto0")]
    if not mech:
        run.notes.append("mechanism binding (b) skipped: " + run.extra["mechanism_binding_skipped"])
    return run.finish(nontrivial_filter=lambda c: True,
                      mandatory=mech + [lambda c: c.startswith("roundtrip:fresh-interpreter") and "loadcache1" in c,
                                 lambda c: c.startswith("depth:chain"),
                                 lambda c: c.startswith("roundtrip:same-process") and "dill" in c and "cache1" in c])


def replay_file(path, wd):
    with open(path) as f:
        rp = json.load(f)
    consts = {k: (set(v) if isinstance(v, list) else v) for k, v in rp.get("consts", {}).items()}
    kind = rp["kind"]
    if kind == "pickle-main-super":
        bad = bool(PX.main_super_case(wd))
    elif kind == "pickle-recursive-closure":
        bad = bool(PX.recursive_closure_case())
    elif kind == "pickle-continue":
        w = build(consts, rp["path"], rp["caching"])
        PX.decorate(w, rp["variant"])
        if rp["caching"]:
            P.run(w, w.project(), {"kind": "C05", "full": False, "nofilter": True})
        _, w2, _ = PX.roundtrip_same_process(w, rp["protocol"], rp["loader"])
        w3 = PX.world_from_pool(__import__("pickle").loads(__import__("pickle").dumps(PX.pool_of(w2))))
        pre = w3.project()
        r = w3.apply(rp["call"])
        rec = {"id": 1, "pre": pre, "c": rp["call"], "res": r, "post": w3.project()}
        print(json.dumps(rec)[:1500])
        bad = any("fail" in v for v in ST.judge("C03", consts, [rec], wd, "replay", shards=1))
    elif kind == "pickle-large":
        err, ok = PX.large_value_case(rp["protocol"], rp["loader"])
        bad = bool(err or not ok)
    elif kind == "pickle-untouched":
        err, ok = PX.untouched_case(rp["protocol"], rp["loader"])
        bad = bool(err or not ok)
    elif kind == "pickle-slotted":
        err, ok = PX.slotted_case(rp["protocol"], rp["loader"])
        bad = bool(err or not ok)
    elif kind == "pickle-after-failure":
        _, err, ok = PX.after_failure_case(rp["protocol"])
        bad = bool(err or not ok)
    elif kind == "pickle-depth":
        err, ok = PX.deep_chain(rp["n"], rp["limit"], rp["shape"])
        bad = bool(err or not ok)
    elif kind == "pickle-fresh":
        w = build(consts, rp["path"], rp["caching"])
        PX.decorate(w, rp["variant"])
        if rp["caching"]:
            P.run(w, w.project(), {"kind": "C05", "full": False, "nofilter": True})
        orig = PX.projection_with_decor(w)
        out = PX.roundtrip_fresh(w, rp["protocol"], rp["loader"], rp["fresh_caching"], rp["calls"], wd, "replay",
                                 query_first=rp.get("query_first", True))
        print(json.dumps({k: out.get(k) for k in ("err", "trace")}))
        bad = bool(out.get("err"))
        if not bad:
            rec = {"id": 1, "pre": orig, "c": {"op": "roundtrip", "k": rp["loader"], "a": [rp["protocol"]], "b": []}, "res": {"err": "", "out": []}, "post": out["post"]}
            bad = bool(ST.judge("C10", consts, [rec], wd, "replay", shards=1))
    elif kind == "pickle-mechanism":
        w = build(consts, rp["path"], rp["caching"])
        PX.decorate(w, rp["variant"])
        tr = PX.mechanism_record(PX.pool_of(w), rp["protocol"])
        tr["id"] = 1
        bad = bool(judge_trees([tr], wd, "replay", shards=1))
    else:
        w = build(consts, rp["path"], rp["caching"])
        PX.decorate(w, rp["variant"])
        orig = PX.projection_with_decor(w)
        res, w2, _ = PX.roundtrip_same_process(w, rp["protocol"], rp["loader"])
        rec = {"id": 1, "pre": orig, "c": {"op": "roundtrip", "k": rp["loader"], "a": [rp["protocol"]], "b": []}, "res": res,
               "post": PX.projection_with_decor(w2) if w2 is not None else orig}
        bad = bool(ST.judge("C10", consts, [rec], wd, "replay", shards=1))
    if bad:
        print(f"VIOLATION property=C10 replay={path}  # reproduced")
        return 1
    print(f"replay of {path}: property C10 holds on the current tree")
    return 0


CHECKS = {"C10": c10}
