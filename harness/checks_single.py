"""C17 (semi-singletons) and C18 (true singletons) -- spec/EGSingleton.tla, hidden-state trace validation."""
from __future__ import annotations

import json
import os
import multiprocessing as mp
from concurrent.futures import ThreadPoolExecutor

from . import tlc, single_exec as SX
from .common import worker_pool, Run, Machinery

ARR = {"NTC": 3, "TParent": "<-ArrTParent", "TNest": "<-ArrTNest", "NestArg": 1, "TClr": "<-ArrTClr", "NSC": 4, "Meta": "<-ArrMeta", "SParent": "<-ArrSParent"}
ASSUME = [
    "the metaclass tables are private: state is inferred by TLC from the returned objects (numbered by first appearance), "
    "their exact class, and per-instance __init__ counters / first arguments recorded by the harness's own base class",
    "classes are built afresh for every replayed trace (TA, TB(TA), TC true singletons; SA, SB sharing one metaclass object, "
    "SC(SA), SD with a parity key function); arguments come from a fixed menu incl. -1 / -2, 1 / 1.0, permuted keywords",
]


def consts(part, NA, NI, emit=True):
    c = dict(ARR)
    c.update({"NA": NA, "NK": {2: 2, 3: 3, 7: 5, 8: 6, 9: 7}[NA], "KeyOf": {2: "<-KeyOf3", 3: "<-KeyOf3", 7: "<-KeyOf7", 8: "<-KeyOf8", 9: "<-KeyOf9"}[NA], "NI": NI,
              "Part": part, "DoEmit": emit})
    return c


INV = ["InvOnePerClass", "InvInitOnce", "InvInstanceOfCalledClass"]
PROPS = ["SameUntilCleared", "ClearIsTargeted", "ClassIsolation", "ChecksCreateNothing", "FreshKeyFreshInstance"]


def generate(run, name, c, wd, simulate=None, depth=None, seed=None):
    text = tlc.make_cfg(c, init="SInit", next_="SNext", view="SView", constraint="SBound", invariants=INV,
                        properties=[] if simulate else PROPS, action_constraint="SEmit")
    res = tlc.run_tlc("MC_Single", text, wd, workers=1, tag=f"sgen-{name}", simulate=simulate, depth=depth, seed=seed,
                      timeout=3000)
    run.add_model(name, res, {k: v for k, v in c.items()})
    return res["json"]


def make_observers(NA):
    def observers(c, state=None):
        if c["op"] in ("tnew", "tclear"):
            # every true-singleton class that has an instance, not only the one named: a call that should change
            # nothing for class B must not disturb class A either (a class without an instance would be constructed by
            # the observation and use up an instance slot of the judging pool)
            live = [k for k, i in enumerate((state or {}).get("tinst", []), 1) if i]
            return [{"op": "tnew", "a": [k, 1]} for k in live] or [{"op": "tnew", "a": [c["a"][0] or 1, 1]}]
        cls = c["a"][0] if c["op"] != "sadd" else 1
        obs = [{"op": "sgetall", "a": [cls]}]
        if len(c["a"]) > 1:
            obs += [{"op": "scheck", "a": [cls, c["a"][1]]}, {"op": "snew", "a": [cls, c["a"][1]]}]
        return obs
    return observers


def traces_from(transitions, limit=None, observers=None):
    """one trace per (state, call): the BFS path of the model to the state, then the call"""
    key = lambda s: json.dumps(s, sort_keys=True)
    parent = {}
    first = key(transitions[0]["s"])
    parent[first] = None
    seen_calls = set()
    out = []
    for tr in transitions:
        ks, kt = key(tr["s"]), key(tr["t"])
        if ks not in parent:
            continue
        if kt not in parent:
            parent[kt] = (ks, tr["c"])
        ck = (ks, json.dumps(tr["c"], sort_keys=True))
        if ck in seen_calls:
            continue
        seen_calls.add(ck)
        path = []
        cur = ks
        while parent[cur] is not None:
            cur, c = parent[cur]
            path.append(c)
        path.reverse()
        out.append(path + [tr["c"]])
        if ks == kt and tr["c"]["op"] in ("snew", "tnew", "sdrop", "sadd", "sclear", "tclear") and observers is not None:
            # the specification says this call changes nothing (e.g. a construction whose __init__ raises, a drop of a
            # key that is not live): the hidden tables must agree - observe them right afterwards
            out.append(path + [tr["c"]] + observers(tr["c"], tr["t"]))
    return out


def _replay(args):
    events, NI = args
    return SX.replay(events, NI)


def execute(traces, NI):
    with worker_pool(mp.get_context("fork"), 16) as pool:
        obs = pool.map(_replay, [(t, NI) for t in traces], chunksize=64)
    return [{"id": i + 1, "events": o} for i, o in enumerate(obs)]


def judge(c, recs, wd, name, shards=12):
    jc = {k: v for k, v in c.items() if k not in ("Part", "DoEmit")}
    text = tlc.make_cfg(jc, init="JInit", next_="JNext")
    n = max(1, min(shards, len(recs) // 1500 + 1))
    size = (len(recs) + n - 1) // n
    parts = [recs[i:i + size] for i in range(0, len(recs), size)]

    def one(ix):
        path = os.path.join(wd, f"srecs-{name}-{ix}.json")
        with open(path, "w") as f:
            json.dump(parts[ix], f)
        r = tlc.run_tlc("JudgeSingle", text, wd, workers=2, tag=f"sjudge-{name}-{ix}", env={"EG_RECORDS": path},
                        heap="3g", timeout=3000)
        want = sum(len(t["events"]) + 1 for t in parts[ix])
        if r["distinct"] != want:
            raise Machinery(f"singleton judge visited {r['distinct']} states, expected {want} ({name}/{ix})")
        os.remove(path)
        return r["json"]

    out = []
    with ThreadPoolExecutor(max_workers=n) as ex:
        for js in ex.map(one, range(len(parts))):
            out.extend(js)
    return out


def event_class(ev):
    op, a = ev["c"]["op"], ev["c"]["a"]
    if op in ("tnew", "snew", "sdrop", "scheck", "sadd"):
        return f"{op}:cls{a[0] if op != 'sadd' else 'x'},arg{a[1]}"
    return f"{op}:{a[0]}"


def run_part(run, prop, name, c, wd, simulate=None, depth=None, seed=None, limit=None):
    trans = generate(run, name, c, wd, simulate=simulate, depth=depth, seed=seed)
    traces = traces_from(trans, observers=make_observers(c["NA"]))
    if limit and len(traces) > limit:
        step = len(traces) / limit
        traces = [traces[int(i * step)] for i in range(limit)]
    recs = execute(traces, c["NI"])
    verdicts = judge(c, recs, wd, name)
    for v in verdicts:
        t = recs[v["id"] - 1]
        ev = t["events"][v["step"] - 1]
        run.violation(f"{event_class(ev)}|{'+'.join(sorted(v['fail']))}",
                      f"{ev['c']['op']}{ev['c']['a']} returned {ev['res']} (inits {ev['inits']}) but the specification says {v['exp']}",
                      {"kind": "singleton", "consts": {k: v_ for k, v_ in c.items()}, "events": [e["c"] for e in t["events"]],
                       "observed": ev, "fail": v["fail"], "expected": v["exp"]})
    for t in recs:
        run.count_class(event_class(t["events"][-1]) + f"|after{min(len(t['events']) - 1, 4)}")
    run.traces += len(recs)
    run.evaluations += sum(len(t["events"]) for t in recs)
    if recs:
        t = recs[len(recs) // 2]
        run.sample({"config": name, "calls": [e["c"] for e in t["events"]], "last_observation": t["events"][-1]})
    run.extra.setdefault("executions", []).append({"config": name, "traces": len(recs), "failing_events": len(verdicts)})


def replay_file(prop, path, wd):
    with open(path) as f:
        rp = json.load(f)
    c = rp["consts"]
    obs = SX.replay(rp["events"], c["NI"])
    v = judge(c, [{"id": 1, "events": obs}], wd, "replay", shards=1)
    print(json.dumps(obs[-1]))
    if v:
        print(f"VIOLATION property={prop} replay={path}  # reproduced: {json.dumps(v[-1])[:300]}")
        return 1
    print(f"replay of {path}: property {prop} holds on the current tree")
    return 0


def c18(tier, seed, wd, replay=None):
    if replay:
        return replay_file("C18", replay, wd)
    run = Run("C18", tier, seed)
    run.rule = ("TLC enumerates every interleaving of constructions (3 related classes x argument menu) and targeted / global "
                "clears of the EGSingleton model, checking OnePerClass, InitOnce, SameUntilCleared, ClearIsTargeted; for every "
                "(state, call) the model's path + call is replayed on fresh real classes and TLC follows the trace with hidden "
                "state: returned object identity, exact class, __init__ runs and first arguments must be explained by the "
                "specification; class = last call x path length; non-trivial = every trace")
    if tier == "quick":
        run_part(run, "C18", "true-3cls-3args", consts("true", 3, 4), wd)
        run_part(run, "C18", "true-sim-8args", consts("true", 8, 6), wd, simulate="num=30", depth=12, seed=seed + 3, limit=4000)
    else:
        run_part(run, "C18", "true-3cls-3args-5inst", consts("true", 3, 5), wd, limit=60000)
        run_part(run, "C18", "true-sim", consts("true", 8, 8), wd, simulate="num=200", depth=25, seed=seed + 3, limit=20000)
    run.exhaustive = True
    run.assumptions = ASSUME
    return run.finish(nontrivial_filter=lambda c: True,
                      mandatory=[lambda c: c.startswith("tclear:0"), lambda c: c.startswith("tnew:cls2"),
                                 lambda c: c.startswith("tclear:2")])


def c17(tier, seed, wd, replay=None):
    if replay:
        return replay_file("C17", replay, wd)
    run = Run("C17", tier, seed)
    run.rule = ("TLC enumerates every interleaving of constructions, add_mapping, drop, check, get_all and clear over 4 "
                "semi-singleton classes (two sharing one metaclass object, a subclass, one with a custom key function) and an "
                "argument menu with equal-hash values (-1 / -2), equal values (1 / 1.0), permuted keywords; checks "
                "InstanceOfCalledClass, InitOnce, ClassIsolation, ChecksCreateNothing, FreshKeyFreshInstance on the model; every "
                "(state, call) is replayed with its path on fresh real classes and TLC follows the trace with hidden state; "
                "class = last call x path length; non-trivial = every trace")
    if tier == "quick":
        run_part(run, "C17", "semi-4cls-2args", consts("semi", 2, 3), wd)
        run_part(run, "C17", "semi-sim-9args", consts("semi", 9, 6), wd, simulate="num=40", depth=15, seed=seed + 5, limit=6000)
    else:
        run_part(run, "C17", "semi-4cls-3args", consts("semi", 3, 3), wd, limit=80000)
        run_part(run, "C17", "semi-sim-9args", consts("semi", 9, 8), wd, simulate="num=300", depth=25, seed=seed + 5, limit=40000)
    run.exhaustive = True
    run.assumptions = ASSUME
    return run.finish(nontrivial_filter=lambda c: True,
                      mandatory=[lambda c: c.startswith("snew:cls2"), lambda c: c.startswith("snew:cls3"),
                                 lambda c: c.startswith("sadd:"), lambda c: c.startswith("sgetall:"),
                                 lambda c: c.startswith("snew:cls4")])


CHECKS = {"C17": c17, "C18": c18}
