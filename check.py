#!/venv/bin/python
"""Entry point of the verification machinery.

  check.py <property> --tier quick|thorough     run the check (exit 0 held / 1 violation / 2 machinery)
  check.py <property> --replay <file>           re-execute a recorded violation on the current /repo
  check.py --setup                              syntax-check every specification module
"""
from __future__ import annotations

import argparse
import os
import shutil
import sys
import traceback

ROOT = os.path.dirname(os.path.abspath(__file__))      # /verif, or a snapshot of it (vp run)
sys.path.insert(0, ROOT)
REPO = os.environ.get("VERIF_REPO", "/repo")           # the tree under test (default: /repo's working tree)
sys.path.insert(0, REPO)
os.environ["VERIF_ROOT"] = ROOT
os.environ["VERIF_REPO"] = REPO
os.environ.setdefault("PYTHONHASHSEED", "0")

from harness import common  # noqa: E402
from harness.common import Machinery  # noqa: E402
from harness.tlc import TLCFailure  # noqa: E402


def registry():
    from harness import checks_struct
    reg = {}
    reg.update(checks_struct.CHECKS)
    for modname in ("checks_query", "checks_cache", "checks_build", "checks_render", "checks_ro",
                    "checks_single", "checks_pickle"):
        try:
            mod = __import__(f"harness.{modname}", fromlist=["CHECKS"])
        except ModuleNotFoundError as exc:
            if exc.name != f"harness.{modname}":
                raise
            continue
        reg.update(mod.CHECKS)
    return reg


def main():
    ap = argparse.ArgumentParser()
    ap.add_argument("prop", nargs="?")
    ap.add_argument("--tier", default=os.environ.get("VERIF_TIER", "quick"), choices=["quick", "thorough"])
    ap.add_argument("--replay")
    ap.add_argument("--setup", action="store_true")
    args = ap.parse_args()
    seed = int(os.environ.get("VERIF_SEED", "0") or 0)
    if args.setup:
        from harness import setup
        sys.exit(setup.main())
    reg = registry()
    if args.prop not in reg:
        print(f"unknown property {args.prop}; have {sorted(reg)}", file=sys.stderr)
        sys.exit(2)
    wd = common.workdir(args.prop)
    try:
        if args.replay:
            rc = reg[args.prop](tier=args.tier, seed=seed, wd=wd, replay=args.replay)
        else:
            rc = reg[args.prop](tier=args.tier, seed=seed, wd=wd, replay=None)
    except (Machinery, TLCFailure) as exc:
        print(f"MACHINERY-FAILURE: {exc}", file=sys.stderr)
        rc = 2
    except Exception:  # pragma: no cover
        traceback.print_exc()
        print("MACHINERY-FAILURE: unexpected exception in the harness", file=sys.stderr)
        rc = 2
    finally:
        if not os.environ.get("VERIF_KEEP"):
            shutil.rmtree(wd, ignore_errors=True)
    sys.exit(rc)


if __name__ == "__main__":
    main()
