"""Usage idioms as traces.  These are NOT tests: they assert nothing.  Each function uses the public API the way
client code does (argument lists shared between constructor calls, accessor results passed back in, graphs built in
loops and torn down in another order); harness/recorder.py records every structural call with the projection of all
objects afterwards, and TLC judges each call against spec/EGStructure.tla (JudgeStruct, follow mode + invariants)."""
from edgegraph.structure import Vertex, Universe, Link, DirectedEdge, UnDirectedEdge, TwoEndedLink
from edgegraph.structure.universe import UniverseLaws
from edgegraph.builder import explicit


class Hyper(Link):
    """a link with any number of ends (Link itself cannot be instantiated)"""


def test_one_universe_list_for_many_vertices():
    u, u2 = Universe(), Universe()
    unis = [u]
    vs = [Vertex(universes=unis) for _ in range(3)]
    vs[0].add_to_universe(u2)
    u.remove_vertex(vs[1])
    vs[2].remove_from_universe(u)
    u2.add_vertex(vs[1])
    vs.append(Vertex(universes=unis))
    u.add_vertex(vs[1])
    vs[3].add_to_universe(u2)
    vs[0].remove_from_universe(u2)


def test_two_universe_list_shared_then_edited_through_the_api():
    u1, u2, u3 = Universe(), Universe(), Universe()
    both = [u1, u2]
    a = Vertex(universes=both)
    b = Vertex(universes=both)
    a.remove_from_universe(u1)
    b.add_to_universe(u3)
    c = Vertex(universes=both)
    u2.remove_vertex(b)
    u3.add_vertex(a)
    u1.add_vertex(a)


def test_one_link_list_for_many_vertices():
    a, b = Vertex(), Vertex()
    e1 = DirectedEdge(a, b)
    e2 = UnDirectedEdge(a, b)
    links = [e1, e2]
    c = Vertex(links=links)
    d = Vertex(links=links)
    c.remove_from_link(e1)
    e2.unlink_from(d)
    e3 = Hyper(vertices=[a])
    d.add_to_link(e3)
    x = Vertex(links=links)
    e1.unlink_from(x)


def test_one_member_list_for_two_universes():
    vs = [Vertex() for _ in range(3)]
    u1 = Universe(vertices=vs)
    u2 = Universe(vertices=vs)
    u1.remove_vertex(vs[0])
    vs[1].remove_from_universe(u2)
    u2.add_vertex(u1)
    u3 = Universe(vertices=vs)
    vs[0].add_to_universe(u1)
    u3.remove_vertex(vs[2])


def test_one_end_list_for_two_links():
    a, b, c = Vertex(), Vertex(), Vertex()
    ends = [a, b]
    l1 = Hyper(vertices=ends)
    l2 = Hyper(vertices=ends)
    l1.add_vertex(c)
    l2.unlink_from(a)
    c.add_to_link(l2)
    l3 = Hyper(vertices=ends)
    b.remove_from_link(l1)


def test_accessor_results_passed_back_in():
    u1, u2 = Universe(), Universe()
    a = Vertex(universes=[u1, u2])
    b = Vertex()
    e = DirectedEdge(a, b)
    twin = Vertex(universes=a.universes, links=a.links)
    twin.remove_from_universe(u1)
    a.remove_from_link(e)
    club = Universe(vertices=u2.vertices)
    u2.remove_vertex(a)
    club.remove_vertex(twin)
    l = Hyper(vertices=e.vertices)
    l.unlink_from(b)
    again = Vertex(universes=twin.universes, links=twin.links)
    again.add_to_universe(u1)


def test_chain_built_in_a_loop_and_torn_down_backwards():
    u = Universe()
    vs = [Vertex(universes=[u]) for _ in range(5)]
    es = [explicit.link_directed(vs[i], vs[i + 1]) for i in range(4)]
    explicit.link_undirected(vs[4], vs[0])
    for i in (3, 1):
        explicit.unlink(vs[i], vs[i + 1])
    explicit.link_directed(vs[1], vs[2], dontdup=True)
    explicit.link_directed(vs[1], vs[2], dontdup=True)
    es[0].v2 = vs[3]
    es[2].v1 = vs[2]
    explicit.unlink(vs[0], vs[3], destroy=False)
    for v in reversed(vs):
        u.remove_vertex(v)


def test_star_rewired():
    hub = Vertex()
    rim = [Vertex() for _ in range(4)]
    spokes = [UnDirectedEdge(hub, r) for r in rim]
    for s, r in zip(spokes, rim[1:] + rim[:1]):
        s.v2 = r
    spokes[0].v1 = rim[0]
    spokes[1].v1 = spokes[1].v2
    explicit.unlink(hub, rim[3])
    explicit.unlink(rim[2], rim[2])
    hub.remove_from_link(spokes[2])
    spokes[2].add_vertex(hub)


def test_link_relinked_after_unlink():
    a, b, c = Vertex(), Vertex(), Vertex()
    e = explicit.link_from_to(a, DirectedEdge, b)
    explicit.unlink(a, b, destroy=False)
    a.add_to_link(e)
    b.add_to_link(e)
    f = explicit.link_from_to(a, DirectedEdge, b, dontdup=True)
    f.v2 = c
    g = explicit.link_from_to(a, DirectedEdge, b, dontdup=True)
    explicit.unlink(a, c)
    g.v1 = g.v2
    explicit.unlink(b, b)


def test_universe_inside_universes():
    outer, inner = Universe(), Universe()
    v = Vertex(universes=[inner])
    outer.add_vertex(inner)
    inner.add_vertex(outer)
    inner.add_vertex(inner)
    e = DirectedEdge(inner, v)
    outer.remove_vertex(inner)
    inner.remove_from_universe(inner)
    e.v1 = outer
    outer.add_to_universe(inner)
    inner.remove_vertex(outer)


def test_laws_moved_around():
    u1, u2 = Universe(), Universe()
    free = UniverseLaws()
    u1.laws = free
    u2.laws = free
    free.applies_to = u1
    d = u1.laws
    u2.laws = None
    free.applies_to = None
    u3 = Universe(laws=free)
    u1.laws = u3.laws
    free.applies_to = u2
    free.applies_to = u2


def test_same_vertex_many_roles():
    v = Vertex()
    u = Universe(vertices=[v, v])
    e = DirectedEdge(v, v)
    f = UnDirectedEdge(v, v)
    w = Vertex(links=[e, e, f], universes=[u, u])
    v.remove_from_link(e)
    f.unlink_from(v)
    explicit.link_directed(v, v, dontdup=True)
    explicit.link_directed(v, v, dontdup=True)
    explicit.unlink(v, v)
    u.remove_vertex(v)
    u.add_vertex(v)
